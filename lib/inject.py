#!/usr/bin/env python3
"""Snapshot /repo's working tree into a scratch dir and inject the /verif harness (add-only)."""
import os, shutil, subprocess, sys

VERIF = os.path.dirname(os.path.dirname(os.path.abspath(__file__)))
REPO = os.environ.get("VERIF_REPO", "/repo")


class InfraError(Exception):
    pass


def snapshot(dst):
    os.makedirs(dst, exist_ok=True)
    r = subprocess.run(["rsync", "-a", "--delete", "--exclude", "/target", "--exclude", "/.git",
                        "--exclude", "/common/target", "--exclude", "/precompile/target",
                        REPO.rstrip("/") + "/", dst.rstrip("/") + "/"], capture_output=True, text=True)
    if r.returncode != 0:
        raise InfraError("rsync failed: " + r.stderr)


def inject(dst):
    """append harness/append/<path>.append to <path>; copy harness/files/<path> (must not exist)."""
    touched = []
    app_root = os.path.join(VERIF, "harness", "append")
    for root, _, files in os.walk(app_root):
        for f in files:
            if not f.endswith(".append"):
                continue
            rel = os.path.relpath(os.path.join(root, f), app_root)[:-len(".append")]
            target = os.path.join(dst, rel)
            if not os.path.isfile(target):
                raise InfraError("injection target missing in the tree: " + rel)
            with open(os.path.join(root, f)) as src, open(target, "a") as out:
                out.write("\n" + src.read())
            touched.append(rel)
    # crate-level attribute for the harness build only (inner attributes must come first, so this one is prepended):
    # the map stand-ins of c02_attack_store_wire name std's HashMap with its allocator parameter
    librs = os.path.join(dst, "src", "lib.rs")
    if os.path.isfile(librs):
        body = open(librs).read()
        open(librs, "w").write("#![cfg_attr(kani, feature(allocator_api))]\n" + body)
    files_root = os.path.join(VERIF, "harness", "files")
    for root, _, files in os.walk(files_root):
        for f in files:
            rel = os.path.relpath(os.path.join(root, f), files_root)
            target = os.path.join(dst, rel)
            if os.path.exists(target):
                raise InfraError("injected file would overwrite a repo file: " + rel)
            os.makedirs(os.path.dirname(target), exist_ok=True)
            shutil.copyfile(os.path.join(root, f), target)
            touched.append(rel)
    # cargo: offline, and an empty [workspace] is NOT added (the repo is its own root package)
    os.makedirs(os.path.join(dst, ".cargo"), exist_ok=True)
    with open(os.path.join(dst, ".cargo", "config.toml"), "a") as c:
        c.write("\n[net]\noffline = true\n\n# build scripts (the magic-number search) optimised: same source, ~20x faster table generation\n[profile.dev.build-override]\nopt-level = 3\n")
    return sorted(touched)


if __name__ == "__main__":
    d = sys.argv[1]
    snapshot(d)
    print("\n".join(inject(d)))
