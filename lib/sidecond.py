"""Syntactic side conditions of the inductive arguments (checked on the snapshot BEFORE injection is
irrelevant: they only look at the repository's own lines, injected hooks are all under #[cfg(kani)]).

The hash / placement induction says: "the only writers of X are F1..Fn, and each Fi was shown to
preserve the invariant". The solver discharges the second half; this module checks the first half by
looking at the source text. A violated side condition makes the check INCONCLUSIVE (exit 2), never a
VIOLATION: it means the harness set no longer covers every writer.
"""
import os, re


def _enclosing_fn(lines, i):
    for j in range(i, -1, -1):
        m = re.search(r"\bfn\s+([A-Za-z0-9_]+)", lines[j])
        if m:
            return m.group(1)
    return None


def _own_lines(path):
    """repository lines only: stop at the first injected #[cfg(kani)] block"""
    out = []
    with open(path, errors="replace") as f:
        for l in f:
            if l.strip().startswith("#[cfg(kani)]"):
                break
            out.append(l)
    # drop the unit-test module
    for i, l in enumerate(out):
        if l.strip().startswith("#[cfg(test)]"):
            return out[:i]
    return out


def writers(path, pattern, allowed):
    bad = []
    lines = _own_lines(path)
    for i, l in enumerate(lines):
        if re.search(pattern, l):
            fn = _enclosing_fn(lines, i)
            if fn not in allowed:
                bad.append(f"{os.path.basename(path)}:{i + 1} in fn {fn}: {l.strip()}")
    return bad


def check(prop, src):
    res = []
    if prop in ("C05", "C02", "C04"):
        p = os.path.join(src, "src/board/position_info.rs")
        bad = writers(p, r"current_position_hash\s*(\^|\||&|\+|-|\*)?=[^=]",
                      {"update_zobrist_hash_toggle_piece", "update_zobrist_hash_toggle_en_passant_target",
                       "update_zobrist_hash_toggle_castling_rights"})
        res.append(dict(name="key field written only by the three toggle functions", ok=not bad, detail="; ".join(bad)))
    if prop in ("C05", "C02", "C04", "C12", "C03"):
        p = os.path.join(src, "src/board/mod.rs")
        bad = writers(p, r"self\.(white|black)\s*(\.(put|remove)\s*\(|=[^=])", {"put", "remove"})
        res.append(dict(name="piece sets mutated only inside Board::put / Board::remove", ok=not bad, detail="; ".join(bad)))
        p = os.path.join(src, "src/board/piece_set.rs")
        bad = writers(p, r"self\.(bitboards\[[^\]]*\]|occupied)\s*(\^|\||&)?=[^=]", {"put", "remove"})
        res.append(dict(name="bitboards / occupancy summary written only in PieceSet::put / remove", ok=not bad, detail="; ".join(bad)))
    return res
