"""C11 thorough: run the M1 obligations also on the magic constants of the builds found under <repo>/target
(the tables the user's own binaries contain), not only on the fresh draw of the Kani build."""
import glob, os, shutil
import registry


def prepare(repo, src, tier):
    """copy each <repo>/target/*/build/chess-*/out/magic_table.rs next to the harness file, append include + harnesses;
    returns the extra harness dicts"""
    if tier != "thorough":
        return []
    found = sorted(glob.glob(os.path.join(repo, "target", "*", "build", "chess-*", "out", "magic_table.rs")))[:3]
    hfile = os.path.join(src, "src/move_generator/magic_table/kani_verif.rs")
    extra = []
    if not found or not os.path.exists(hfile):
        return []
    code = ["\n// ---- constants found in OUT_DIRs under <repo>/target (added by lib/outdir.py at injection time) ----"]
    for i, path in enumerate(found):
        dst = os.path.join(os.path.dirname(hfile), f"outdir{i}_table.rs")
        shutil.copyfile(path, dst)
        code.append(f"mod outdir{i} {{\n    use super::super::MagicEntry;\n    include!(\"outdir{i}_table.rs\");\n}}")
        for piece, rook in (("rook", "true"), ("bishop", "false")):
            for start in (0, 16, 32, 48):
                name = f"m1_outdir{i}_{piece}_{start:02d}"
                code.append(f"m1_batch_ext!({name}, outdir{i}::{piece.upper()}_MAGICS, outdir{i}::{piece.upper()}_TABLE_SIZE, {rook}, {start});")
                extra.append(dict(name=name, fq=registry.MT + name, props=["C11"], tier="thorough",
                                  desc=f"M1 {piece}, squares {start}..{start+15}, on the constants of {path.replace(repo, '<repo>')} (a build the user's binaries come from)",
                                  functions=["magic_index", "slider_moves", "try_offset", "generated magic_table.rs (data)"],
                                  assumptions="square concrete (16 per harness), occ: symbolic u64, b: symbolic subset of the mask",
                                  stubs=[], unwind=17, kind="obligation", est_s=90, heavy=False, witness_of=None, native_stubs=[]))
    with open(hfile, "a") as f:
        f.write("\n".join(code) + "\n")
    return extra
