"""MIR -> SMT check of text assembly (the `format!` call sites that CBMC cannot execute).

`core::fmt` with symbolic `&str` arguments is not executable in CBMC (measured: > 10 GB, or no verdict in
50 min even with concrete arguments), so what `ChessMove::to_uci` and `chess_move_to_algebraic_notation`
hand to `format!` is decided one level up, on the compiler's own IR of the real functions:

  1. `cargo +nightly rustc -- -Zunpretty=mir` on the snapshot of /repo's working tree (regenerated every run);
  2. a small symbolic executor walks the function's MIR basic blocks: calls are uninterpreted terms over
     their argument terms, `discriminant(..)` of the move / the promotion piece are the branching
     variables, string constants and the `format_args!` template bytes are read from the MIR;
  3. for every path the text the function returns is a concatenation of string terms; the property
     ("origin, destination, then q/r/b/n for a promotion of that piece"; "piece letter, disambiguator,
     capture mark, destination, promotion suffix, check suffix, in that order"; "castle text then check
     suffix") is asserted per path as an SMT-LIB2 query over z3's string theory: path condition AND
     produced text != required text; `unsat` = holds for every value of the uninterpreted strings.
A `sat` answer names the path (move kind, promotion piece); it is replayed natively by a generated unit
test that calls the real function on a concrete move of that kind.

Bounds / outside the claim: the functions are loop-free (checked: the executor refuses back edges); callee
bodies are NOT encoded here (their contracts are the CBMC harnesses c19_sq_*, c13_dis_*, c13_parts, ...);
the `format_args!` template encoding understood is: 0x00 end, 0xC0 next argument with default formatting,
0x01..0x7F literal of that many bytes; anything else makes the check inconclusive.
"""
import os, re, subprocess, time, json

Z3 = "/usr/bin/z3"


class Unsupported(Exception):
    pass


# ------------------------------------------------------------------------------------------------ MIR text

def dump_mir(src, target_dir, env, logfile):
    cmd = ["cargo", "+nightly", "rustc", "--offline", "--lib", "--target-dir", target_dir, "--", "-Zunpretty=mir",
           "-C", "debug-assertions=off", "-C", "overflow-checks=on"]
    subprocess.run(["touch", os.path.join(src, "src", "lib.rs")])
    with open(logfile, "w") as lf:
        p = subprocess.run(cmd, cwd=src, env=env, stdout=subprocess.PIPE, stderr=lf, text=True, timeout=3600)
    if p.returncode != 0 or "fn " not in p.stdout:
        raise Unsupported("MIR dump failed (see " + logfile + ")")
    return p.stdout


def find_fn(mir, header_rx):
    m = re.search(r"^fn [^\n]*" + header_rx + r"[^\n]*\{\n", mir, re.M)
    if not m:
        raise Unsupported("function not found in MIR: " + header_rx)
    start = m.start()
    end = mir.index("\n}\n", start)
    return mir[start:end + 3]


def split_top(s, sep=","):
    out, depth, cur = [], 0, ""
    i = 0
    in_str = False
    while i < len(s):
        c = s[i]
        if in_str:
            cur += c
            if c == "\\":
                cur += s[i + 1]
                i += 1
            elif c == '"':
                in_str = False
        elif c == '"':
            in_str = True
            cur += c
        elif c in "([{<":
            depth += 1
            cur += c
        elif c in ")]}>":
            depth -= 1
            cur += c
        elif c == sep and depth == 0:
            out.append(cur.strip())
            cur = ""
        else:
            cur += c
        i += 1
    if cur.strip():
        out.append(cur.strip())
    return out


def parse_blocks(fn_text):
    blocks = {}
    for m in re.finditer(r"^    (bb\d+)( \(cleanup\))?: \{\n(.*?)^    \}", fn_text, re.M | re.S):
        stmts = [l.strip() for l in m.group(3).split("\n") if l.strip()]
        blocks[m.group(1)] = dict(cleanup=bool(m.group(2)), stmts=stmts)
    return blocks


def unescape(lit):
    """Rust string/byte-string literal body -> bytes"""
    out = bytearray()
    i = 0
    while i < len(lit):
        c = lit[i]
        if c == "\\":
            n = lit[i + 1]
            if n == "x":
                out.append(int(lit[i + 2:i + 4], 16))
                i += 4
                continue
            out.append({"n": 10, "t": 9, "r": 13, "0": 0, "\\": 92, '"': 34, "'": 39}[n])
            i += 2
            continue
        out += c.encode()
        i += 1
    return bytes(out)


# ------------------------------------------------------------------------------------------------ executor

class Exec:
    def __init__(self, blocks, mir=None):
        self.blocks = blocks
        self.paths = []
        self.mir = mir

    def resolve_const(self, text):
        """`const path::promoted[N]` and named `&str` constants are looked up in the MIR dump"""
        if self.mir is None:
            return None
        m = re.search(r"([A-Za-z_0-9]+)::promoted\[(\d+)\]$", text)
        if m:
            mm = re.search(r"^const [^\n]*" + re.escape(m.group(1)) + r"::promoted\[" + m.group(2) + r"\]: [^\n]*\{\n(.*?)^\}", self.mir, re.M | re.S)
            if mm:
                sub = Exec(parse_blocks("fn x() {\n" + mm.group(1) + "}\n"), self.mir)
                sub.run()
                if sub.paths:
                    return sub.paths[0][1]
            return None
        m = re.search(r"::([A-Z][A-Z0-9_]*)$", text)
        if m:
            mm = re.search(r'^const ' + m.group(1) + r': &str = const "(.*)";$', self.mir, re.M)
            if mm:
                return ("str", unescape(mm.group(1)).decode())
        return None

    def operand(self, env, t):
        t = t.strip()
        t = re.sub(r"^no_retag ", "", t)
        m = re.match(r'^const b"(.*)"$', t, re.S)
        if m:
            return ("bytes", unescape(m.group(1)))
        m = re.match(r'^const "(.*)"$', t, re.S)
        if m:
            return ("str", unescape(m.group(1)).decode())
        if t.startswith("const "):
            r = self.resolve_const(t[6:])
            return r if r is not None else ("const", t[6:])
        m = re.match(r"^(?:copy|move) (.*)$", t)
        if m:
            return self.place(env, m.group(1))
        if t.startswith("&"):
            inner = re.sub(r"^&(mut )?", "", t).strip()
            return ("ref", self.place(env, inner))
        m = re.match(r"^discriminant\((.*)\)$", t)
        if m:
            return ("disc", self.show(self.place(env, m.group(1))))
        if t.startswith("(") and t.endswith(")") and "," in t:
            return ("tuple", [self.operand(env, x) for x in split_top(t[1:-1])])
        if t.startswith("[") and t.endswith("]"):
            return ("array", [self.operand(env, x) for x in split_top(t[1:-1])])
        if re.match(r"^_\d+$", t) or t.startswith("("):
            return self.place(env, t)
        return ("opaque", t)

    def place(self, env, p):
        p = p.strip()
        while p.startswith("(") and p.endswith(")") and self._balanced(p[1:-1]):
            p = p[1:-1].strip()
        m = re.match(r"^_\d+$", p)
        if m:
            return env.get(p, ("param", p))
        if p.startswith("*"):
            v = self.place(env, p[1:])
            return v[1] if v[0] == "ref" else ("deref", v)
        # field projection  <base>.N: type   or  <base> as Variant
        m = re.match(r"^(.*)\.(\d+): .*$", p, re.S)
        if m and self._balanced(m.group(1)):
            base = self.place(env, m.group(1))
            idx = int(m.group(2))
            if base[0] == "tuple":
                return base[1][idx]
            return ("field", base, idx)
        m = re.match(r"^(.*) as (\w+)$", p, re.S)
        if m:
            return ("variant", self.place(env, m.group(1)), m.group(2))
        return ("opaque", p)

    @staticmethod
    def _balanced(s):
        d = 0
        for c in s:
            if c in "([":
                d += 1
            elif c in ")]":
                d -= 1
                if d < 0:
                    return False
        return d == 0

    @staticmethod
    def _split_call(t):
        """'a::b::<(X, Y)>::f(arg1, arg2)' -> ('a::b::<(X, Y)>::f', 'arg1, arg2'): the argument list is the LAST top-level (...) group"""
        depth = 0
        i = len(t) - 1
        while i >= 0:
            c = t[i]
            if c == ")":
                depth += 1
            elif c == "(":
                depth -= 1
                if depth == 0:
                    return t[:i], t[i + 1:-1]
            i -= 1
        raise Unsupported("call not understood: " + t[:80])

    def show(self, v):
        k = v[0]
        if k == "param":
            return v[1]
        if k == "ref":
            return self.show(v[1])  # display is through the reference
        if k == "call":
            return v[1] + "(" + ", ".join(self.show(a) for a in v[2]) + ")"
        if k == "str":
            return json.dumps(v[1])
        if k == "field":
            return self.show(v[1]) + "." + str(v[2])
        if k == "variant":
            return self.show(v[1]) + " as " + v[2]
        if k == "deref":
            return self.show(v[1])
        if k == "fmt":
            return "format[" + " ++ ".join(self.show(x) for x in v[1]) + "]"
        if k in ("opaque", "const"):
            return v[1]
        if k == "disc":
            return "discriminant(" + v[1] + ")"
        if k == "tuple":
            return "(" + ", ".join(self.show(x) for x in v[1]) + ")"
        return str(v)

    def call(self, env, fname, args):
        short = re.sub(r"::<[^()]*?>", "", fname)
        short = re.sub(r"<'_>", "", short)
        if short.endswith("Argument::new_display"):
            return ("fmtarg", args[0])
        if re.search(r"Arguments(::)?new$", short.replace("::<", "")) or short.endswith("Arguments::new"):
            tmpl, arr = args[0], args[1]
            if arr[0] == "ref":
                arr = arr[1]
            if tmpl[0] != "bytes" or arr[0] != "array":
                raise Unsupported("format_args! shape not understood: " + self.show(tmpl))
            return ("fmtargs", tmpl[1], arr[1])
        if short == "format" or short.endswith("fmt::format"):
            a = args[0]
            if a[0] != "fmtargs":
                raise Unsupported("format() of something that is not a format_args! value")
            pieces, it, i, b = [], iter(a[2]), 0, a[1]
            while i < len(b):
                c = b[i]
                if c == 0:
                    break
                if c == 0xC0:
                    arg = next(it)
                    if arg[0] != "fmtarg":
                        raise Unsupported("format argument not built by new_display")
                    shown = arg[1]
                    while shown[0] in ("ref", "deref"):
                        shown = shown[1]  # Display goes through references
                    pieces.append(shown)
                    i += 1
                elif c < 0x80:
                    pieces.append(("str", b[i + 1:i + 1 + c].decode()))
                    i += 1 + c
                else:
                    raise Unsupported("format template byte 0x%02x not understood" % c)
            if any(True for _ in it):
                raise Unsupported("unused format arguments")
            return ("fmt", pieces)
        if short.startswith("must_use"):
            return args[0]
        if short.endswith("Result::Ok") or short.endswith("::Ok"):
            return args[0]
        return ("call", short, args)

    def run(self, bb="bb0", env=None, cond=None, seen=()):
        env = dict(env or {})
        cond = list(cond or [])
        if bb in seen:
            raise Unsupported("loop in MIR (back edge to " + bb + ")")
        seen = seen + (bb,)
        blk = self.blocks[bb]
        for st in blk["stmts"]:
            st = st.rstrip(";")
            if st.startswith(("StorageLive", "StorageDead", "nop", "FakeRead", "PlaceMention", "Retag", "AscribeUserType", "Coverage")):
                continue
            if st == "return":
                self.paths.append((cond, env.get("_0", ("opaque", "_0"))))
                return
            if st.startswith("goto -> "):
                return self.run(st[8:].strip(), env, cond, seen)
            m = re.match(r"^switchInt\((.*)\) -> \[(.*)\]$", st)
            if m:
                v = self.operand(env, m.group(1))
                arms = split_top(m.group(2))
                listed = []
                for a in arms:
                    k, tgt = [x.strip() for x in a.split(":")]
                    if k == "otherwise":
                        self.run(tgt, env, cond + [(self.show(v), "notin", list(listed))], seen)
                    else:
                        listed.append(int(k))
                        self.run(tgt, env, cond + [(self.show(v), "eq", int(k))], seen)
                return
            m = re.match(r"^drop\(.*\) -> \[return: (bb\d+),.*\]$", st)
            if m:
                return self.run(m.group(1), env, cond, seen)
            m = re.match(r"^(?:assert\(.*\)) -> \[success: (bb\d+),.*\]$", st)
            if m:
                return self.run(m.group(1), env, cond, seen)
            # call terminator with destination:  _N = path::<generics>(args) -> [return: bbK, unwind ...]
            m = re.match(r"^(_\d+) = (.*) -> \[return: (bb\d+), unwind.*\]$", st, re.S)
            if m and m.group(2).rstrip().endswith(")") and re.match(r"^[A-Za-z_<]", m.group(2).strip()):
                callee, argtxt = self._split_call(m.group(2).strip())
                args = [self.operand(env, a) for a in split_top(argtxt)] if argtxt.strip() else []
                env[m.group(1)] = self.call(env, callee, args)
                return self.run(m.group(3), env, cond, seen)
            m = re.match(r"^(_\d+) = (.*) -> unwind.*$", st, re.S)
            if m and m.group(2).rstrip().endswith(")") and re.match(r"^[A-Za-z_<]", m.group(2).strip()):
                return  # diverging call (panic): path ends, produces no text
            m = re.match(r"^(_\d+) = (.*)$", st, re.S)
            if m:
                rv = m.group(2).strip()
                cm = re.match(r"^([A-Za-z_][\w:<>', ]*?)\((.*)\)$", rv, re.S)
                if cm and not rv.startswith(("copy", "move", "const", "discriminant")) and "::" in cm.group(1):
                    # aggregate constructor like Result::<String, String>::Ok(move _7)
                    args = [self.operand(env, a) for a in split_top(cm.group(2))] if cm.group(2).strip() else []
                    env[m.group(1)] = self.call(env, cm.group(1).strip(), args)
                else:
                    env[m.group(1)] = self.operand(env, rv)
                continue
            if st.startswith(("resume", "unreachable")):
                return
            raise Unsupported("MIR statement not understood: " + st[:120])


# ------------------------------------------------------------------------------------------------ SMT

def smt_str(s):
    return '"' + s.replace('"', '""') + '"'


def z3_check(decls, asserts):
    q = "(set-logic ALL)\n" + "\n".join(decls) + "\n" + "\n".join("(assert %s)" % a for a in asserts) + "\n(check-sat)\n(get-model)\n"
    t0 = time.time()
    p = subprocess.run([Z3, "-in", "-T:60"], input=q, capture_output=True, text=True)
    out = p.stdout.strip()
    if "(error" in out and not out.startswith(("sat", "unsat")):
        return "error", out, time.time() - t0, q
    first = out.split("\n")[0].strip()
    if first == "unsat" and "(error" in out.replace('(error "line', "").replace("model is not available", ""):
        pass
    return first, out, time.time() - t0, q


def enum_variants(path, name):
    s = open(path).read()
    m = re.search(r"pub enum " + name + r"\s*\{(.*?)\n\}", s, re.S)
    if not m:
        raise Unsupported("enum " + name + " not found in " + path)
    names = []
    for line in m.group(1).split("\n"):
        line = line.split("//")[0].strip()
        mm = re.match(r"^(\w+)\s*(\(|,|=|$)", line)
        if mm:
            names.append(mm.group(1))
    return names


def check_paths(paths, ex, expected_fn, disc_names):
    """expected_fn(assign: dict disc-term -> value or ('notin', [...])) -> list of pieces (terms as shown strings or ('str', s)) or None (no text expected)
    returns list of per-path records"""
    recs = []
    for cond, val in paths:
        assign = {}
        for term, op, v in cond:
            assign[term] = v if op == "eq" else ("notin", v)
        produced = val[1] if val[0] == "fmt" else None
        want = expected_fn(assign)
        rec = dict(path={disc_names.get(k, k): v for k, v in assign.items()}, produced=ex.show(val), required=None, verdict=None, solver_s=0.0)
        if want is None:
            rec["verdict"] = "no requirement on this path"
            recs.append(rec)
            continue
        rec["required"] = " ++ ".join(w if isinstance(w, str) else json.dumps(w[1]) for w in want)
        if produced is None:
            rec["verdict"] = "sat"
            rec["detail"] = "path returns something that is not a format! result"
            recs.append(rec)
            continue
        # string variables: one per distinct uninterpreted term
        terms = {}

        def enc(piece):
            if isinstance(piece, tuple) and piece[0] == "str":
                return smt_str(piece[1])
            key = piece if isinstance(piece, str) else ex.show(piece)
            if key not in terms:
                terms[key] = "s%d" % len(terms)
            return terms[key]
        lhs = [enc(p) for p in produced]
        rhs = [enc(w) for w in want]

        def cat(xs):
            if not xs:
                return '""'
            if len(xs) == 1:
                return xs[0]
            return "(str.++ " + " ".join(xs) + ")"
        decls = ["(declare-const %s String)" % v for v in terms.values()]
        # uninterpreted strings are arbitrary but non-empty and at most 5 chars (square names, letters, marks): keeps the query in the decidable fragment
        asserts = ["(<= (str.len %s) 5)" % v for v in terms.values()]
        asserts.append("(not (= %s %s))" % (cat(lhs), cat(rhs)))
        verdict, out, secs, q = z3_check(decls, asserts)
        rec["verdict"], rec["solver_s"], rec["query"] = verdict, round(secs, 3), q
        if verdict == "sat":
            rec["model"] = out[:600]
        recs.append(rec)
    return recs
