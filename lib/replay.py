"""Replay a solver counterexample natively before it is reported.

Kani's concrete playback turns the SAT assignment into a #[test] that feeds the concrete bytes to
every kani::any() of the harness; `cargo kani playback` compiles the scratch copy natively (cfg(kani)
on, Kani's library in concrete mode) and runs it. The test must panic on one of the failed checks.
For harnesses that use Kani stubs, the same stubs are installed natively by patching the scratch
copy (STUB_PATCHES): an early `return <stub>(args)` at the top of the stubbed function.
"""
import os, re, subprocess, shutil, time

VERIF = os.path.dirname(os.path.dirname(os.path.abspath(__file__)))

def _hdr(name):
    return r"fn " + name + r"\s*(?:<[^>{}]*>)?\s*\([^{}]*?\)\s*(?:->\s*[^{}]+?)?\s*\{"


# stub target -> (file, regex matching the function header up to and including '{', statement to insert)
STUB_PATCHES = {
    "toggle_piece": ("src/board/position_info.rs", _hdr("update_zobrist_hash_toggle_piece"), "return self.ghost_toggle_piece(square, piece, color);"),
    "toggle_ep": ("src/board/position_info.rs", _hdr("update_zobrist_hash_toggle_en_passant_target"), "return self.ghost_toggle_ep(square);"),
    "toggle_castle": ("src/board/position_info.rs", _hdr("update_zobrist_hash_toggle_castling_rights"), "return self.ghost_toggle_castle(castling_rights);"),
    "attack_targets": ("src/move_generator/targets.rs", _hdr("generate_attack_targets"), "return self.stub_attack(board, color);"),
    "knight": ("src/move_generator/mod.rs", _hdr("generate_knight_moves"), "return kani_verif::wire::knight(moves, board, color, targets);"),
    "sliding": ("src/move_generator/mod.rs", _hdr("generate_sliding_moves"), "return kani_verif::wire::sliding(moves, board, color, targets);"),
    "king": ("src/move_generator/mod.rs", _hdr("generate_king_moves"), "return kani_verif::wire::king(moves, board, color, targets);"),
    "pawn": ("src/move_generator/mod.rs", _hdr("generate_pawn_moves"), "return kani_verif::wire::pawn(moves, board, color);"),
    "castle": ("src/move_generator/mod.rs", _hdr("generate_castle_moves"), "return kani_verif::wire::castle(moves, board, color, targets);"),
    "filter": ("src/move_generator/mod.rs", _hdr("remove_invalid_moves"), "return kani_verif::wire::filter(candidates, board, color, targets);"),
    "pawn_move_targets": ("src/move_generator/targets.rs", _hdr("generate_pawn_move_targets"), "return super::kani_verif::pwire::move_targets(board, color);"),
    "pawn_attack_targets": ("src/move_generator/targets.rs", _hdr("generate_pawn_attack_targets"), "return super::kani_verif::pwire::attack_targets(piece_targets, board, color);"),
    "expand": ("src/move_generator/mod.rs", _hdr("expand_piece_targets"), "return kani_verif::pwire::expand(moves, board, color, piece_targets);"),
    "en_passant": ("src/move_generator/mod.rs", _hdr("generate_en_passant_moves"), "return kani_verif::pwire::en_passant(moves, board, color);"),
    "generate_moves": ("src/move_generator/mod.rs", r"pub " + _hdr("generate_moves"), "return self.stub_generate_moves(board, player);"),
    "get_attack_targets": ("src/move_generator/mod.rs", _hdr("get_attack_targets"), "return self.stub_get_attack_targets(board, player);"),
    "vstub_checkmate": ("src/evaluate/mod.rs", _hdr("player_is_in_checkmate"), "return crate::move_generator::verif_vstub_checkmate(board, move_generator, player);"),
    "vstub_check": ("src/evaluate/mod.rs", r"pub " + _hdr("player_is_in_check"), "return crate::move_generator::verif_vstub_check(board, move_generator, player);"),
    "generate_moves_ewire": ("src/move_generator/mod.rs", r"pub " + _hdr("generate_moves"), "return self.ewire_generate(board, player);"),
    "effect_ewire": ("src/move_generator/mod.rs", _hdr("lazily_calculate_chess_move_effect"), "return self.ewire_effect(chess_move, board, player);"),
    "lru_get": ("src/move_generator/mod.rs", r"self\.cache\.get\(", "kani_verif::cwire::LruStub::get(&mut self.cache, ", "sub"),
    "lru_put": ("src/move_generator/mod.rs", r"self\.cache\.put\(", "kani_verif::cwire::lru_put(&mut self.cache, ", "sub"),
    "map_get": ("src/move_generator/targets.rs", r"self\s*\.attacks_cache\s*\.get\(", "super::kani_verif::swire::MapStub::get(&self.attacks_cache, ", "sub"),
    "map_insert": ("src/move_generator/targets.rs", r"self\s*\.attacks_cache\s*\.insert\(", "super::kani_verif::swire::MapStub::insert(&mut self.attacks_cache, ", "sub"),
    "gen_valid": ("src/move_generator/mod.rs", _hdr("generate_valid_moves"), "return kani_verif::cwire::gen_valid(board, color, targets);"),
    "acache_get": ("src/move_generator/targets.rs", _hdr("get_cached_attack"), "return self.cwire_get_cached(color, board_hash);"),
    "acache_put": ("src/move_generator/targets.rs", _hdr("cache_attack"), "return self.cwire_cache_attack(color, board_hash, attack_targets);"),
    "game_ending": ("src/evaluate/mod.rs", _hdr("game_ending"), "return kani_verif::estub::game_ending(board, move_generator, current_turn);"),
    "to_algebraic": ("common/src/bitboard/square.rs", _hdr("to_algebraic"), "if true { return tables::ALGEBRAIC[(square.0.trailing_zeros() & 63) as usize]; }"),
    "square_string_to_bitboard": ("common/src/bitboard/square.rs", _hdr("square_string_to_bitboard"),
                                  "if true { let b = coordinate.as_bytes(); return Bitboard(1u64 << (((b[1] - b'1') * 8 + (b[0] - b'a')) & 63)); }"),
    "c13w_gen": ("src/move_generator/mod.rs", r"pub " + _hdr("generate_moves_and_lazily_update_chess_move_effects"), "if true { return self.c13w_generate(board, player); }"),
    "c13w_label": ("src/chess_move/algebraic_notation.rs", _hdr("chess_move_to_algebraic_notation"), "if true { return kani_verif::c13w::label(chess_move, board, candidate_moves); }"),
    "uf_rook": ("src/move_generator/magic_table.rs", r"pub " + _hdr("get_rook_targets"), "if true { return self.uf_rook(square, blockers); }"),
    "uf_bishop": ("src/move_generator/magic_table.rs", r"pub " + _hdr("get_bishop_targets"), "if true { return self.uf_bishop(square, blockers); }"),
    "magic_new": ("src/move_generator/magic_table.rs", r"pub " + _hdr("new"), "if true { return Self::verif_empty(); }"),
}


def _descendants(root):
    kids = {}
    for d in os.listdir("/proc"):
        if not d.isdigit():
            continue
        try:
            with open(f"/proc/{d}/stat") as f:
                st = f.read()
            rp = st.rindex(")")
            fields = st[rp + 2:].split()
            kids.setdefault(int(fields[1]), []).append((int(d), st[st.index("(") + 1:rp], int(fields[21]) * 4096))
        except (OSError, ValueError, IndexError):
            continue
    out, stack = [], [root]
    while stack:
        p = stack.pop()
        for c in kids.get(p, []):
            out.append(c)
            stack.append(c[0])
    return out


def _run(cmd, cwd, env, timeout, logfile, mem_gb=None):
    """run one command in its own process group (killed as a group on timeout). mem_gb: RSS watchdog -- the whole
    group is killed when any descendant (cbmc, kani-driver parsing a trace, ...) grows beyond it. (An address-space
    ulimit does not work here: kani-driver reserves far more virtual memory than it touches.)"""
    import signal
    with open(logfile, "w") as lf:
        p = subprocess.Popen(["bash", "-c", cmd], cwd=cwd, env=env, stdout=lf, stderr=subprocess.STDOUT, start_new_session=True)
        t0 = time.time()
        while True:
            try:
                return p.wait(timeout=5)
            except subprocess.TimeoutExpired:
                over = mem_gb and any(rss > mem_gb * (1 << 30) for _, _, rss in _descendants(p.pid))
                if over or time.time() - t0 > timeout:
                    try:
                        os.killpg(p.pid, signal.SIGKILL)
                    except ProcessLookupError:
                        pass
                    p.wait()
                    lf.write("\n[replay] killed: " + ("memory cap" if over else "timeout") + "\n")
                    return -9


def _keep(prop, path):
    """keep the tail of a log under /verif/logs/<prop>/ (the scratch dir is removed after the check)"""
    try:
        d = os.path.join(VERIF, "logs", prop)
        os.makedirs(d, exist_ok=True)
        with open(path, errors="replace") as f:
            lines = [l for l in f.readlines() if "Status: SUCCESS" not in l]
        open(os.path.join(d, os.path.basename(path)), "w").writelines(lines[-400:])
    except OSError:
        pass


def install_native_stubs(h, src):
    """returns (ok, detail)"""
    import registry
    for key in h.get("native_stubs", []):
        if key not in STUB_PATCHES:
            return False, "no native stub patch for " + key
        spec = STUB_PATCHES[key]
        f, rx, stmt = spec[0], spec[1], spec[2]
        p = os.path.join(src, f)
        s = open(p).read()
        if len(spec) > 3 and spec[3] == "sub":
            # call-site substitution (for stand-ins of functions of external crates)
            s2, n = re.subn(rx, stmt, s)
            if n < 1:
                return False, "stub patch pattern not found for " + key
        else:
            s2, n = re.subn(rx, lambda m: m.group(0) + " " + stmt, s, count=1)
            if n != 1:
                return False, "stub patch pattern not found for " + key
        open(p, "w").write(s2)
    return True, ""


HARNESS_FILES = {
    "board::kani_verif::": "src/board/kani_verif.rs",
    "move_generator::kani_verif::": "src/move_generator/kani_verif.rs",
    "move_generator::magic_table::kani_verif::": "src/move_generator/magic_table/kani_verif.rs",
    "evaluate::kani_verif::": "src/evaluate/kani_verif.rs",
    "chess_move::algebraic_notation::kani_verif::": "src/chess_move/algebraic_notation/kani_verif.rs",
    "game::stockfish_elo::kani_verif::": "src/game/stockfish_elo/kani_verif.rs",
}


def _rust_str(x):
    return '"' + x.replace("\\", "\\\\").replace('"', '\\"') + '"'


def _playback_run(h, src, env, logs, filt, tag):
    """cargo kani playback on tests whose name contains `filt`; returns (ran, failed, text)"""
    lg = os.path.join(logs, f"playback-run-{h['name']}-{tag}.log")
    _run(f"cargo kani playback -Z concrete-playback --lib -- {filt} --nocapture", src, env,
         int(os.environ.get("VERIF_NATIVE_TIMEOUT", "1500")), lg)
    t = open(lg, errors="replace").read()
    ran = re.search(r"running (\d+) test", t)
    failed = bool(re.search(r"test result: FAILED", t)) or ("panicked at" in t and bool(ran) and int(ran.group(1)) > 0)
    return (int(ran.group(1)) if ran else 0), failed, t, lg


def _kani_playback(prop, h, fcs, src, target, logs, env, hfile):
    """Kani's own concrete playback: solver assignment -> #[test] -> native run. returns dict or None"""
    log1 = os.path.join(logs, f"playback-gen-{h['name']}.log")
    cmd = (f"cargo kani --lib -Z stubbing -Z concrete-playback --concrete-playback=print --exact --harness {h['fq']} "
           f"--target-dir {target}")

    def gen(extra_env):
        e = dict(env)
        e.update(extra_env)
        # Kani's playback parses CBMC's full JSON trace inside the driver: cap it (seen: 39 GB for a list-heavy harness)
        _run(cmd, src, e, int(os.environ.get('VERIF_PLAYBACK_TIMEOUT', '1500')), log1, mem_gb=float(os.environ.get('VERIF_PLAYBACK_MEM_GB', '16')))
        txt = open(log1, errors="replace").read()
        found = []
        for blk in re.findall(r"```\s*\n(.*?)\n```", txt, re.S):
            m = re.search(r"fn (kani_concrete_playback_[A-Za-z0-9_]+)\(\)", blk)
            if m and "#[test]" in blk:
                found.append((blk, m.group(1), "Check for `cover`" in blk))
        return found
    # first without the reachability covers (VERIF_NOCOVER compiles them out): Kani then emits the test for the
    # failing assertion; with covers present it sometimes emits only the cover's test
    found = gen({"VERIF_NOCOVER": "1"})
    if not [f for f in found if not f[2]]:
        found = gen({})
    tests = [(b, n) for b, n, is_cover in found if not is_cover] or [(b, n) for b, n, is_cover in found]
    if not tests:
        _keep(prop, log1)
        return dict(reproduced=False, detail="Kani concrete playback produced no test within the budget", tests=[])
    with open(os.path.join(src, hfile), "a") as f:
        for body, name in tests:
            f.write("\n" + body + "\n")
    ran, failed, t, lg = _playback_run(h, src, env, logs, f"kani_concrete_playback_{h['name']}_", "kani")
    hit = [fc["desc"] for fc in fcs if fc["desc"] and fc["desc"][:50] in t]
    res = dict(method="Kani concrete playback of the solver's assignment", tests_run=ran, test_failed=failed, matched_checks=hit,
               panic=(re.findall(r"panicked at [^\n]*\n[^\n]*", t) or [""])[0][:400])
    if not failed:
        _keep(prop, lg)
    return dict(reproduced=failed, detail=res, tests=tests)


def _fuzz_playback(prop, h, fcs, src, logs, env, hfile):
    """fallback: execute the same harness natively on sparse byte streams until the refuted assertion trips"""
    needles = ", ".join(_rust_str(fc["desc"][:90]) for fc in fcs if fc["desc"])
    tries = int(os.environ.get("VERIF_FUZZ_TRIES", "1200000"))
    with open(os.path.join(src, hfile), "a") as f:
        f.write(f"\n#[test]\nfn verif_fuzz_{h['name']}() {{\n    crate::verif_ref::fuzz_drive({h['name']}, &[{needles}], {tries});\n}}\n")
    ran, failed, t, lg = _playback_run(h, src, env, logs, f"verif_fuzz_{h['name']}", "fuzz")
    m = re.search(r"FUZZ-REPRODUCED try=(\d+) msg=(.*)", t)
    hx = re.search(r"FUZZ-BYTES ([0-9a-f]*)", t)
    if m and hx and failed:
        test = (f"#[test]\nfn verif_fuzz_replay_{h['name']}() {{\n    // input bytes of the harness's vany() calls, in call order\n"
                f"    crate::verif_ref::fuzz_run_bytes({h['name']}, \"{hx.group(1)}\");\n}}")
        res = dict(method="native search over sparse input streams (the solver refuted the assertion; this finds a native run that trips it)",
                   tests_run=ran, test_failed=True, tries_until_hit=int(m.group(1)), panic=m.group(2)[:300])
        return dict(reproduced=True, detail=res, tests=[(test, f"verif_fuzz_replay_{h['name']}")])
    _keep(prop, lg)
    return dict(reproduced=False, detail="native search did not trip the assertion (" + ("ran" if ran else "did not run") + ")", tests=[])


def replay(prop, h, fcs, src, target, logs, env):
    out = dict(reproduced=False, path=None, detail=None)
    t0 = time.time()
    mod = h["fq"][: -len(h["name"])]
    hfile = HARNESS_FILES.get(mod)
    if not hfile or not os.path.exists(os.path.join(src, hfile)):
        out["detail"] = "unknown harness file for " + h["fq"]
        return out
    ok, detail = install_native_stubs(h, src)
    if not ok:
        out["detail"] = detail
        return out
    # the native search is cheap (one native test build, then micro-seconds per try) and needs no trace; Kani's own
    # playback of the solver's assignment is the fallback (its trace parsing was seen at 16-39 GB / > 30 min)
    order = ["fuzz", "kani"]
    attempts = []
    got = None
    for how in order:
        r = _fuzz_playback(prop, h, fcs, src, logs, env, hfile) if how == "fuzz" else _kani_playback(prop, h, fcs, src, target, logs, env, hfile)
        attempts.append(dict(how=how, reproduced=r["reproduced"], detail=r["detail"]))
        if r["reproduced"]:
            got = r
            break
    if not got:
        out["detail"] = attempts
        return out
    d = os.path.join(os.environ.get("VERIF_REPLAY_DIR") or os.path.join(VERIF, "replays"), prop)
    os.makedirs(d, exist_ok=True)
    path = os.path.join(d, h["name"] + ".rs")
    with open(path, "w") as f:
        f.write(f"// Replay of a solver counterexample for property {prop}, harness {h['fq']}\n")
        f.write("// failed checks: " + "; ".join(fc["desc"] for fc in fcs) + "\n")
        for fc in fcs:
            f.write(f"//   at {fc['file']}:{fc['line']} in {fc['func']}\n")
        f.write(f"// native replay: {got['detail']}\n")
        f.write(f"// To re-run against /repo's current tree: /verif/bin/replay {prop} {h['name']}   (snapshots /repo, injects the harness, installs the\n")
        f.write(f"// native stand-ins of the harness's Kani stubs {h.get('native_stubs')}, appends the test(s) below to {hfile}, runs `cargo kani playback`)\n\n")
        for body, name in got["tests"]:
            f.write(body + "\n\n")
    out.update(reproduced=True, path=path, detail=attempts, seconds=round(time.time() - t0, 1))
    return out
