"""Replay a solver counterexample natively before it is reported.

Kani's concrete playback turns the SAT assignment into a #[test] that feeds the concrete bytes to
every kani::any() of the harness; `cargo kani playback` compiles the scratch copy natively (cfg(kani)
on, Kani's library in concrete mode) and runs it. The test must panic on one of the failed checks.
For harnesses that use Kani stubs, the same stubs are installed natively by patching the scratch
copy (STUB_PATCHES): an early `return <stub>(args)` at the top of the stubbed function.
"""
import os, re, subprocess, shutil, time

VERIF = os.path.dirname(os.path.dirname(os.path.abspath(__file__)))

# stub target -> (file, regex matching the function header up to and including '{', statement to insert)
STUB_PATCHES = {}


def _run(cmd, cwd, env, timeout, logfile):
    with open(logfile, "w") as lf:
        try:
            p = subprocess.run(["bash", "-c", cmd], cwd=cwd, env=env, stdout=lf, stderr=subprocess.STDOUT, timeout=timeout)
            return p.returncode
        except subprocess.TimeoutExpired:
            return -9


def install_native_stubs(h, src):
    """returns (ok, detail)"""
    import registry
    for key in h.get("native_stubs", []):
        if key not in STUB_PATCHES:
            return False, "no native stub patch for " + key
        f, rx, stmt = STUB_PATCHES[key]
        p = os.path.join(src, f)
        s = open(p).read()
        s2, n = re.subn(rx, lambda m: m.group(0) + " " + stmt, s, count=1)
        if n != 1:
            return False, "stub patch pattern not found for " + key
        open(p, "w").write(s2)
    return True, ""


HARNESS_FILES = {
    "board::kani_verif::": "src/board/kani_verif.rs",
    "move_generator::kani_verif::": "src/move_generator/kani_verif.rs",
    "move_generator::magic_table::kani_verif::": "src/move_generator/magic_table/kani_verif.rs",
    "evaluate::kani_verif::": "src/evaluate/kani_verif.rs",
    "chess_move::algebraic_notation::kani_verif::": "src/chess_move/algebraic_notation/kani_verif.rs",
    "game::stockfish_elo::kani_verif::": "src/game/stockfish_elo/kani_verif.rs",
}


def replay(prop, h, fcs, src, target, logs, env):
    out = dict(reproduced=False, path=None, detail=None)
    t0 = time.time()
    log1 = os.path.join(logs, f"playback-gen-{h['name']}.log")
    cmd = (f"cargo kani --lib -Z stubbing -Z concrete-playback --concrete-playback=print --exact --harness {h['fq']} "
           f"--target-dir {target}")
    _run(cmd, src, env, 3600, log1)
    txt = open(log1, errors="replace").read()
    tests = []
    for blk in re.findall(r"```\s*\n(.*?)\n```", txt, re.S):
        m = re.search(r"fn (kani_concrete_playback_[A-Za-z0-9_]+)\(\)", blk)
        if m and "#[test]" in blk and "Check for `cover`" not in blk:
            tests.append((blk, m.group(1)))
    if not tests:
        out["detail"] = "concrete playback produced no test"
        return out
    mod = h["fq"][: -len(h["name"])]
    hfile = HARNESS_FILES.get(mod)
    if not hfile or not os.path.exists(os.path.join(src, hfile)):
        out["detail"] = "unknown harness file for " + h["fq"]
        return out
    with open(os.path.join(src, hfile), "a") as f:
        for body, name in tests:
            f.write("\n" + body + "\n")
    ok, detail = install_native_stubs(h, src)
    if not ok:
        out["detail"] = detail
        return out
    results = {}
    names = [n for _, n in tests]
    for profile, flag in (("dev", ""), ("release", "--release")):
        lg = os.path.join(logs, f"playback-run-{h['name']}-{profile}.log")
        _run(f"cargo kani playback -Z concrete-playback --lib {flag} -- kani_concrete_playback_{h['name']}_ --nocapture", src, env, 3600, lg)
        t = open(lg, errors="replace").read()
        ran = re.search(r"running (\d+) test", t)
        failed = bool(re.search(r"test result: FAILED", t)) or ("panicked at" in t and bool(ran))
        hit = [fc["desc"] for fc in fcs if fc["desc"] and fc["desc"][:50] in t]
        results[profile] = dict(tests_run=int(ran.group(1)) if ran else 0, test_failed=failed, matched_checks=hit,
                                panic=(re.findall(r"panicked at [^\n]*\n[^\n]*", t) or [""])[0][:400])
    reproduced = results["dev"]["test_failed"] or results["release"]["test_failed"]
    d = os.path.join(VERIF, "replays", prop)
    os.makedirs(d, exist_ok=True)
    path = os.path.join(d, h["name"] + ".rs")
    with open(path, "w") as f:
        f.write(f"// Replay of a solver counterexample for property {prop}, harness {h['fq']}\n")
        f.write("// failed checks: " + "; ".join(fc["desc"] for fc in fcs) + "\n")
        for fc in fcs:
            f.write(f"//   at {fc['file']}:{fc['line']} in {fc['func']}\n")
        f.write(f"// native replay (cargo kani playback): dev: {results['dev']}\n//   release: {results['release']}\n")
        f.write(f"// To re-run: /verif/bin/replay {prop} {h['name']}  -- snapshots /repo, injects the harness, appends the test(s) below to\n")
        f.write(f"// {hfile} and runs `cargo kani playback -Z concrete-playback --lib -- {names[0]}`\n")
        f.write("// The byte vectors are the concrete values of the harness's kani::any() calls, in call order.\n\n")
        for body, name in tests:
            f.write(body + "\n\n")
    out.update(reproduced=reproduced, path=path, detail=results, seconds=round(time.time() - t0, 1))
    return out
