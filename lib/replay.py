"""Replay a solver counterexample natively before it is reported.

Kani's concrete playback turns the SAT assignment into a #[test] that feeds the concrete bytes to
every kani::any() of the harness; `cargo kani playback` compiles the scratch copy natively (cfg(kani)
on, Kani's library in concrete mode) and runs it. The test must panic on one of the failed checks.
For harnesses that use Kani stubs, the same stubs are installed natively by patching the scratch
copy (STUB_PATCHES): an early `return <stub>(args)` at the top of the stubbed function.
"""
import os, re, subprocess, shutil, time

VERIF = os.path.dirname(os.path.dirname(os.path.abspath(__file__)))

def _hdr(name):
    return r"fn " + name + r"\s*(?:<[^>{}]*>)?\s*\([^{}]*?\)\s*(?:->\s*[^{}]+?)?\s*\{"


# stub target -> (file, regex matching the function header up to and including '{', statement to insert)
STUB_PATCHES = {
    "toggle_piece": ("src/board/position_info.rs", _hdr("update_zobrist_hash_toggle_piece"), "return self.ghost_toggle_piece(square, piece, color);"),
    "toggle_ep": ("src/board/position_info.rs", _hdr("update_zobrist_hash_toggle_en_passant_target"), "return self.ghost_toggle_ep(square);"),
    "toggle_castle": ("src/board/position_info.rs", _hdr("update_zobrist_hash_toggle_castling_rights"), "return self.ghost_toggle_castle(castling_rights);"),
    "attack_targets": ("src/move_generator/targets.rs", _hdr("generate_attack_targets"), "return self.stub_attack(board, color);"),
    "knight": ("src/move_generator/mod.rs", _hdr("generate_knight_moves"), "return kani_verif::wire::knight(moves, board, color, targets);"),
    "sliding": ("src/move_generator/mod.rs", _hdr("generate_sliding_moves"), "return kani_verif::wire::sliding(moves, board, color, targets);"),
    "king": ("src/move_generator/mod.rs", _hdr("generate_king_moves"), "return kani_verif::wire::king(moves, board, color, targets);"),
    "pawn": ("src/move_generator/mod.rs", _hdr("generate_pawn_moves"), "return kani_verif::wire::pawn(moves, board, color);"),
    "castle": ("src/move_generator/mod.rs", _hdr("generate_castle_moves"), "return kani_verif::wire::castle(moves, board, color, targets);"),
    "filter": ("src/move_generator/mod.rs", _hdr("remove_invalid_moves"), "return kani_verif::wire::filter(candidates, board, color, targets);"),
    "pawn_move_targets": ("src/move_generator/targets.rs", _hdr("generate_pawn_move_targets"), "return super::kani_verif::pwire::move_targets(board, color);"),
    "pawn_attack_targets": ("src/move_generator/targets.rs", _hdr("generate_pawn_attack_targets"), "return super::kani_verif::pwire::attack_targets(piece_targets, board, color);"),
    "expand": ("src/move_generator/mod.rs", _hdr("expand_piece_targets"), "return kani_verif::pwire::expand(moves, board, color, piece_targets);"),
    "en_passant": ("src/move_generator/mod.rs", _hdr("generate_en_passant_moves"), "return kani_verif::pwire::en_passant(moves, board, color);"),
    "generate_moves": ("src/move_generator/mod.rs", r"pub " + _hdr("generate_moves"), "return self.stub_generate_moves(board, player);"),
    "get_attack_targets": ("src/move_generator/mod.rs", _hdr("get_attack_targets"), "return self.stub_get_attack_targets(board, player);"),
    "vstub_checkmate": ("src/evaluate/mod.rs", _hdr("player_is_in_checkmate"), "return crate::move_generator::verif_vstub_checkmate(board, move_generator, player);"),
    "vstub_check": ("src/evaluate/mod.rs", r"pub " + _hdr("player_is_in_check"), "return crate::move_generator::verif_vstub_check(board, move_generator, player);"),
    "generate_moves_ewire": ("src/move_generator/mod.rs", r"pub " + _hdr("generate_moves"), "return self.ewire_generate(board, player);"),
    "effect_ewire": ("src/move_generator/mod.rs", _hdr("lazily_calculate_chess_move_effect"), "return self.ewire_effect(chess_move, board, player);"),
    "game_ending": ("src/evaluate/mod.rs", _hdr("game_ending"), "return kani_verif::estub::game_ending(board, move_generator, current_turn);"),
    "to_algebraic": ("common/src/bitboard/square.rs", _hdr("to_algebraic"), "if true { return tables::ALGEBRAIC[(square.0.trailing_zeros() & 63) as usize]; }"),
    "square_string_to_bitboard": ("common/src/bitboard/square.rs", _hdr("square_string_to_bitboard"),
                                  "if true { let b = coordinate.as_bytes(); return Bitboard(1u64 << (((b[1] - b'1') * 8 + (b[0] - b'a')) & 63)); }"),
    "magic_new": ("src/move_generator/magic_table.rs", r"pub " + _hdr("new"), "if true { return Self::verif_empty(); }"),
}


def _run(cmd, cwd, env, timeout, logfile):
    with open(logfile, "w") as lf:
        try:
            p = subprocess.run(["bash", "-c", cmd], cwd=cwd, env=env, stdout=lf, stderr=subprocess.STDOUT, timeout=timeout)
            return p.returncode
        except subprocess.TimeoutExpired:
            return -9


def _keep(prop, path):
    """keep the tail of a log under /verif/logs/<prop>/ (the scratch dir is removed after the check)"""
    try:
        d = os.path.join(VERIF, "logs", prop)
        os.makedirs(d, exist_ok=True)
        with open(path, errors="replace") as f:
            lines = [l for l in f.readlines() if "Status: SUCCESS" not in l]
        open(os.path.join(d, os.path.basename(path)), "w").writelines(lines[-400:])
    except OSError:
        pass


def install_native_stubs(h, src):
    """returns (ok, detail)"""
    import registry
    for key in h.get("native_stubs", []):
        if key not in STUB_PATCHES:
            return False, "no native stub patch for " + key
        f, rx, stmt = STUB_PATCHES[key]
        p = os.path.join(src, f)
        s = open(p).read()
        s2, n = re.subn(rx, lambda m: m.group(0) + " " + stmt, s, count=1)
        if n != 1:
            return False, "stub patch pattern not found for " + key
        open(p, "w").write(s2)
    return True, ""


HARNESS_FILES = {
    "board::kani_verif::": "src/board/kani_verif.rs",
    "move_generator::kani_verif::": "src/move_generator/kani_verif.rs",
    "move_generator::magic_table::kani_verif::": "src/move_generator/magic_table/kani_verif.rs",
    "evaluate::kani_verif::": "src/evaluate/kani_verif.rs",
    "chess_move::algebraic_notation::kani_verif::": "src/chess_move/algebraic_notation/kani_verif.rs",
    "game::stockfish_elo::kani_verif::": "src/game/stockfish_elo/kani_verif.rs",
}


def replay(prop, h, fcs, src, target, logs, env):
    out = dict(reproduced=False, path=None, detail=None)
    t0 = time.time()
    log1 = os.path.join(logs, f"playback-gen-{h['name']}.log")
    cmd = (f"cargo kani --lib -Z stubbing -Z concrete-playback --concrete-playback=print --exact --harness {h['fq']} "
           f"--target-dir {target}")
    def gen(extra_env):
        e = dict(env)
        e.update(extra_env)
        _run(cmd, src, e, 3600, log1)
        txt = open(log1, errors="replace").read()
        found = []
        for blk in re.findall(r"```\s*\n(.*?)\n```", txt, re.S):
            m = re.search(r"fn (kani_concrete_playback_[A-Za-z0-9_]+)\(\)", blk)
            if m and "#[test]" in blk:
                found.append((blk, m.group(1), "Check for `cover`" in blk))
        return found
    # first without the reachability covers (VERIF_NOCOVER compiles them out): Kani then emits the test for the
    # failing assertion; with covers present it sometimes emits only the cover's test
    found = gen({"VERIF_NOCOVER": "1"})
    if not [f for f in found if not f[2]]:
        found = gen({})
    tests = [(b, n) for b, n, is_cover in found if not is_cover] or [(b, n) for b, n, is_cover in found]
    if not tests:
        out["detail"] = "concrete playback produced no test"
        _keep(prop, log1)
        return out
    mod = h["fq"][: -len(h["name"])]
    hfile = HARNESS_FILES.get(mod)
    if not hfile or not os.path.exists(os.path.join(src, hfile)):
        out["detail"] = "unknown harness file for " + h["fq"]
        return out
    with open(os.path.join(src, hfile), "a") as f:
        for body, name in tests:
            f.write("\n" + body + "\n")
    ok, detail = install_native_stubs(h, src)
    if not ok:
        out["detail"] = detail
        return out
    results = {}
    names = [n for _, n in tests]
    for profile, flag in (("dev", ""), ("release", "--release")):
        lg = os.path.join(logs, f"playback-run-{h['name']}-{profile}.log")
        _run(f"cargo kani playback -Z concrete-playback --lib {flag} -- kani_concrete_playback_{h['name']}_ --nocapture", src, env, 3600, lg)
        t = open(lg, errors="replace").read()
        ran = re.search(r"running (\d+) test", t)
        failed = bool(re.search(r"test result: FAILED", t)) or ("panicked at" in t and bool(ran))
        hit = [fc["desc"] for fc in fcs if fc["desc"] and fc["desc"][:50] in t]
        results[profile] = dict(tests_run=int(ran.group(1)) if ran else 0, test_failed=failed, matched_checks=hit,
                                panic=(re.findall(r"panicked at [^\n]*\n[^\n]*", t) or [""])[0][:400])
    reproduced = results["dev"]["test_failed"] or results["release"]["test_failed"]
    if not reproduced:
        for profile in ("dev", "release"):
            _keep(prop, os.path.join(logs, f"playback-run-{h['name']}-{profile}.log"))
    d = os.path.join(os.environ.get("VERIF_REPLAY_DIR") or os.path.join(VERIF, "replays"), prop)
    os.makedirs(d, exist_ok=True)
    path = os.path.join(d, h["name"] + ".rs")
    with open(path, "w") as f:
        f.write(f"// Replay of a solver counterexample for property {prop}, harness {h['fq']}\n")
        f.write("// failed checks: " + "; ".join(fc["desc"] for fc in fcs) + "\n")
        for fc in fcs:
            f.write(f"//   at {fc['file']}:{fc['line']} in {fc['func']}\n")
        f.write(f"// native replay (cargo kani playback): dev: {results['dev']}\n//   release: {results['release']}\n")
        f.write(f"// To re-run: /verif/bin/replay {prop} {h['name']}  -- snapshots /repo, injects the harness, appends the test(s) below to\n")
        f.write(f"// {hfile} and runs `cargo kani playback -Z concrete-playback --lib -- {names[0]}`\n")
        f.write("// The byte vectors are the concrete values of the harness's kani::any() calls, in call order.\n\n")
        for body, name in tests:
            f.write(body + "\n\n")
    out.update(reproduced=reproduced, path=path, detail=results, seconds=round(time.time() - t0, 1))
    return out
