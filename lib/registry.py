"""Harness registry: which Kani harness decides which clause of which property.

Every entry is one solver obligation (a #[kani::proof] harness in /verif/harness/files or in an
appended child module). `props` lists the properties whose check runs it; `tier` is the lowest tier
that runs it ("quick" harnesses also run in thorough). `kind`: obligation | witness (a twin ending
in assert!(false) that must FAIL: reachability / vacuity guard).
"""

BOARD = "board::kani_verif::"

COMMON_TRUST = [
    "rustc -> Kani MIR lowering (kani 0.68.0)",
    "CBMC 6.11.0 symbolic execution and bit-blasting",
    "CaDiCaL SAT verdict",
    "the reference rules in /verif/harness/files/src/verif_ref.rs (no engine code is called from it)",
]

KIND_NAMES = {
    "std": "standard move (quiet, capture, double pawn step; any piece)",
    "promo": "promotion (4 pieces, with and without capture)",
    "ep": "en passant capture",
    "oo": "king-side castle",
    "ooo": "queen-side castle",
}

H = []


def guess_native(name):
    """which native stub patches (lib/replay.py STUB_PATCHES) a harness needs when its counterexample is replayed"""
    if name.startswith(("hmove_", "hsetup_")):
        return ["toggle_piece", "toggle_ep", "toggle_castle"]
    if name.startswith(("c01_castle_", "c01_filter_", "witness_c01_castle")):
        return ["attack_targets"]
    if name.startswith("c01_wire_pawn_"):
        return ["pawn_move_targets", "pawn_attack_targets", "expand", "en_passant"]
    if name.startswith("c01_wire_"):
        return ["knight", "sliding", "king", "pawn", "castle", "filter"]
    if name.startswith("c06_effect_"):
        return ["vstub_checkmate", "vstub_check"]
    if name.startswith(("c06_check_", "c06_ending_", "c16_draw_", "c06_checkmate_")):
        return ["generate_moves", "get_attack_targets"]
    if name == "c18_mate":
        return ["game_ending"]
    if name.startswith("c13_dis_"):
        return ["to_algebraic"]
    if name.startswith("c19_cls_"):
        return ["square_string_to_bitboard"]
    if name.startswith("c01_slider"):
        return ["uf_rook", "uf_bishop"]
    if name == "m5_tables_wired":
        return ["magic_new"]
    return []


def add(name, props, tier, desc, functions, assumptions, stubs=(), unwind=8, kind="obligation",
        module=BOARD, est_s=60, heavy=False, witness_of=None, native=None):
    H.append(dict(name=name, fq=module + name, props=list(props), tier=tier, desc=desc,
                  functions=list(functions), assumptions=assumptions, stubs=list(stubs), unwind=unwind,
                  kind=kind, est_s=est_s, heavy=heavy, witness_of=witness_of,
                  native_stubs=list(native) if native is not None else guess_native(name)))


APPLY_FNS = {
    "std": ["StandardChessMove::apply", "StandardChessMove::undo", "get_en_passant_target_square",
            "get_lost_castle_rights_if_rook_or_king_moved", "get_lost_castle_rights_if_rook_taken"],
    "promo": ["PawnPromotionChessMove::apply", "PawnPromotionChessMove::undo", "StandardChessMove::apply",
              "StandardChessMove::undo"],
    "ep": ["EnPassantChessMove::apply", "EnPassantChessMove::undo"],
    "oo": ["CastleChessMove::apply", "CastleChessMove::undo", "CastleChessMove::castle_kingside"],
    "ooo": ["CastleChessMove::apply", "CastleChessMove::undo", "CastleChessMove::castle_queenside"],
}
BOARD_FNS = ["ChessMove::apply", "ChessMove::undo", "Board::put", "Board::remove", "Board::get",
             "PieceSet::put/remove/get", "Board::push/pop_en_passant_target", "Board::lose/pop/preserve_castle_rights",
             "MoveInfo::* (stacks, clocks)", "PositionInfo::update_zobrist_hash_toggle_*"]

STEP_ASSUME = ("pre-state: fully symbolic 12 bitboards + ep + rights under RepInv (pairwise disjoint, one king per side, "
               "no pawn on rank 1/8, held right => king and rook at home, ep consistent with the side that just moved, "
               "<=16 pieces per side); stacks are [symbolic prefix, top]; move: symbolic Legalish move of this kind "
               "(rules-shaped incl. geometry and clear paths, not capturing a king; own-king safety NOT required, so "
               "transient states inside legality filtering are covered); counters below 255")

for kind in ["std", "promo", "ep", "oo", "ooo"]:
    # est_s also orders the replay attempts: castle / en-passant / promotion counterexamples have much smaller traces than
    # standard-move ones (Kani's playback of a c04_undo_std_* trace was seen at 16 GB)
    KEST = {"std": 200, "promo": 120, "ep": 60, "oo": 50, "ooo": 50}[kind]
    for col, cname in [("w", "White"), ("b", "Black")]:
        quick = "quick" if kind in ("std", "oo", "ooo", "ep") else "thorough"
        add(f"c03_apply_{kind}_{col}", ["C03"], "quick",
            f"apply of a {KIND_NAMES[kind]} by {cname}: Ok, post-state == rules' successor (12 bitboards, ep, rights), turn unchanged, get() agrees",
            APPLY_FNS[kind] + BOARD_FNS, STEP_ASSUME, est_s=KEST)
        add(f"c04_undo_{kind}_{col}", ["C04"], "quick",
            f"apply;undo of a {KIND_NAMES[kind]} by {cname}: every raw field, stack tops, depths (+1 then -1), prefixes, counters, repetition bookkeeping restored",
            APPLY_FNS[kind] + BOARD_FNS, STEP_ASSUME, est_s=KEST + 20)
        add(f"c12_inv_{kind}_{col}", ["C12"], "quick",
            f"RepInv(pre) and Legalish {KIND_NAMES[kind]} by {cname} => RepInv(post), summaries agree, rights only shrink",
            APPLY_FNS[kind] + BOARD_FNS, STEP_ASSUME, est_s=KEST + 10)
        add(f"c16_step_{kind}_{col}", ["C16"], "quick",
            f"counters across a {KIND_NAMES[kind]} by {cname}: half' = 0 on capture/pawn move else half+1; full' = full+1; undo restores; no overflow (Kani arithmetic checks)",
            APPLY_FNS[kind] + BOARD_FNS,
            STEP_ASSUME.replace("counters below 255", "move counter anywhere in 0..=100000 (as far as the field's type holds it), half-move clock <= 200"),
            est_s=KEST)
        add(f"hmove_{kind}_{col}", ["C05", "C04", "C02"], "quick",
            f"key toggles over apply and apply;undo of a {KIND_NAMES[kind]} by {cname}: for an arbitrary feature id, parity of its toggles == (holds before) XOR (holds after); even over apply;undo; key field written only via the toggles",
            APPLY_FNS[kind] + BOARD_FNS, STEP_ASSUME,
            stubs=["PositionInfo::update_zobrist_hash_toggle_piece/_en_passant_target/_castling_rights -> ghost recorders (log the feature id instead of XORing); discharged by h2_toggles_exact"],
            unwind=30, est_s=KEST + 30)

add("witness_step_std_w", ["C03", "C04", "C12", "C16", "C05"], "quick",
    "vacuity witness: same pre-state and move assumptions as the step harnesses, ends in assert!(false); must FAIL",
    ["StandardChessMove::apply"], STEP_ASSUME, kind="witness", est_s=60)

add("c12_base_start_and_new", ["C12"], "quick",
    "base case: Board::starting_position() and Board::new() satisfy RepInv; summaries agree",
    ["Board::starting_position", "chess_position! macro", "Board::new", "Board::put"], "none (concrete)", unwind=70, est_s=60)
add("c12_put_remove_step", ["C12"], "quick",
    "put/remove on an arbitrary Disjoint board: put succeeds iff square empty, squares stay single-occupied, summaries exact",
    ["Board::put", "Board::remove", "Board::get", "PieceSet::put/remove/get"],
    "pre-state: fully symbolic Disjoint board; symbolic square, piece, colour", est_s=30)

H_ASSUME = "pre-state: fully symbolic Disjoint board (12 bitboards pairwise disjoint, ep empty or one-hot, rights<16), stacks [prefix, top]; real Zobrist tables of this build's draw"
add("h0_new_board", ["C05", "C02"], "quick", "Board::new(): key 0, all rights, no ep, empty placement, stack depth 1",
    ["Board::new", "MoveInfo::new", "PositionInfo::new"], "none (concrete)", unwind=4, est_s=5)
add("h1_constants_distinct", ["C05", "C02"], "quick",
    "for symbolic i != j over all 848 key constants of this draw (3 tables): constant non-zero and constants[i] != constants[j]",
    ["ZOBRIST_PIECES_TABLE", "ZOBRIST_CASTLING_RIGHTS_TABLE", "ZOBRIST_EN_PASSANT_TABLE (build-script output of this Kani build)"],
    "symbolic pair of indices", unwind=4, est_s=90)
add("h2_toggles_exact", ["C05", "C02"], "quick",
    "each real toggle XORs exactly table[piece][square][colour] / table[rights] / table[square]; twice = identity; empty ep = no-op",
    ["PositionInfo::update_zobrist_hash_toggle_piece", "..._en_passant_target", "..._castling_rights"],
    "symbolic hash, square, piece, colour, rights", unwind=4, est_s=20)
add("h2_piece_toggle_injective", ["C05", "C02"], "quick",
    "two (piece, colour, square) features toggle the same constant iff they are the same feature (this draw)",
    ["PositionInfo::update_zobrist_hash_toggle_piece"], "symbolic pair of features", unwind=4, est_s=30)
for m, d in [("put", "put toggles exactly the new piece's key iff it succeeds"),
             ("remove", "remove toggles exactly the removed piece's key"),
             ("push_ep", "push_en_passant_target: previous target's key out, new target's key in"),
             ("pop_ep", "pop_en_passant_target: popped target's key out, uncovered target's key in"),
             ("lose_rights", "lose_castle_rights: old rights-set key out, new in; new = old & !lost"),
             ("pop_rights", "pop_castle_rights: popped rights-set key out, uncovered in"),
             ("preserve_rights", "preserve_castle_rights leaves the key alone")]:
    add(f"h3_{m}", ["C05", "C02"], "quick", "key delta of one mutator, real tables: " + d,
        ["Board::" + {"put": "put", "remove": "remove", "push_ep": "push_en_passant_target", "pop_ep": "pop_en_passant_target",
                      "lose_rights": "lose_castle_rights", "pop_rights": "pop_castle_rights", "preserve_rights": "preserve_castle_rights"}[m],
         "PositionInfo toggles (real)", "MoveInfo stack ops"], H_ASSUME, est_s=15)
add("hsetup_any_mutator", ["C05", "C02"], "quick",
    "any one of the 7 board mutators (set-up API included) toggles exactly the features that changed (ghost log, every draw)",
    ["Board::put/remove/push_en_passant_target/pop_en_passant_target/lose_castle_rights/pop_castle_rights/preserve_castle_rights"],
    H_ASSUME.replace("; real Zobrist tables of this build's draw", ""),
    stubs=["the three toggles -> ghost recorders"], unwind=30, est_s=30)
add("c02_sep_single_feature", ["C02", "C05"], "quick",
    "a single-feature edit through the real mutators (piece appears / disappears, different ep target incl. none, rights lost) always changes the key (this draw)",
    ["Board::put", "Board::remove", "Board::push_en_passant_target", "Board::lose_castle_rights"], H_ASSUME, est_s=30)
add("c02_sep_replace_piece", ["C02", "C05"], "quick",
    "replacing the piece on a square by a different (kind, colour) changes the key (this draw)",
    ["Board::put", "Board::remove"], H_ASSUME, est_s=30)


MG = "move_generator::kani_verif::"
MT = "move_generator::magic_table::kani_verif::"
NOSPILL = "smallvec::SmallVec::reserve_one_unchecked and ::try_grow (the grow paths) -> panic!: a list that would exceed its inline capacity is a reported failure, not a dropped path; SmallVec::spilled -> false (sound because no path can move a list to the heap once the grow paths panic)"
APPENDSTUB = "smallvec::SmallVec::append -> plain indexed loop with the library function's contract (all elements of `other` moved to the end of `self` in order, `other` left empty); the library version drains `other`, and draining a list of ChessMoves of SYMBOLIC length costs CBMC > 20 GB (measured on a 10-line probe)"
ATTSTUB = "Targets::generate_attack_targets -> returns a harness-chosen arbitrary bitboard A and records (colour, board) it was asked about; contract discharged by the A1 lemmas + C11"

for col, cname, w in [("w", "White", True), ("b", "Black", False)]:
    add(f"c01_ep_{col}", ["C01"], "quick",
        f"generate_en_passant_moves for {cname}: emitted set == {{own pawn diagonally behind the target}} x {{target}}; <=2, no duplicates, nothing without a target",
        ["generate_en_passant_moves", "Board::peek_en_passant_target", "PieceSet::locate"],
        "fully symbolic Disjoint board, symbolic ep target (empty or one-hot)", stubs=[NOSPILL], module=MG, est_s=60)
    add(f"c01_castle_{col}", ["C01"], "quick",
        f"generate_castle_moves for {cname}: O-O emitted <=> right held, f/g empty, king and f-square outside A; O-O-O <=> right held, b/c/d empty, king and d-square outside A; A requested once, for the opponent, on this board",
        ["generate_castle_moves", "Board::peek_castle_rights", "Board::get", "CastleChessMove::castle_kingside/queenside"],
        "fully symbolic RepInv board; A arbitrary 64-bit attack map", stubs=[NOSPILL, ATTSTUB], module=MG, est_s=240)
    add(f"c01_wire_{col}", ["C01"], "quick",
        f"generate_valid_moves for {cname} with all six stage functions stubbed: each stage runs exactly once with the caller's board and colour, the filter runs last over the concatenation of all stage outputs, its output is returned",
        ["generate_valid_moves"], "fully symbolic Disjoint board; symbolic subset kept by the filter stub",
        stubs=[NOSPILL, "generate_knight_moves, generate_sliding_moves, generate_king_moves, generate_pawn_moves, generate_castle_moves -> push one marker move and record (board, colour); remove_invalid_moves -> records the list it sees, keeps a symbolic subset; contracts discharged by the stage harnesses c01_*"],
        module=MG, est_s=60)
    for fl in (["a"] if col == "w" else ["h"]):
        add(f"c01_wire_pawn_{col}_{fl}", ["C01"], "thorough",
            f"generate_pawn_moves wiring for {cname}, last-rank destination on the {fl}-file (corner square): same contract as c01_wire_pawn_{col}",
            ["generate_pawn_moves", "PAWN_PROMOTIONS", "PawnPromotionChessMove::new"], "fully symbolic Disjoint board; symbolic outputs of the stubbed sub-stages; destination squares concrete",
            stubs=[NOSPILL, APPENDSTUB, "generate_pawn_move_targets, generate_pawn_attack_targets, expand_piece_targets, generate_en_passant_moves -> symbolic outputs + argument records"],
            module=MG, unwind=10, est_s=400, heavy=True)
    add(f"c01_wire_pawn_{col}", ["C01"], "thorough",
        f"generate_pawn_moves for {cname} with its four sub-stages stubbed: capture targets = attack squares holding enemy pieces, a last-rank move becomes exactly the four promotions (same squares, same capture tag) and never stays standard, other moves stay, en-passant moves appended once, existing list entries preserved",
        ["generate_pawn_moves", "PAWN_PROMOTIONS", "PawnPromotionChessMove::new"],
        "fully symbolic Disjoint board; symbolic outputs of the stubbed sub-stages",
        stubs=[NOSPILL, "generate_pawn_move_targets, generate_pawn_attack_targets, expand_piece_targets, generate_en_passant_moves -> symbolic outputs + argument records; contracts discharged by c01_pawn_*, c01_expand_*, c01_ep_*"],
        module=MG, unwind=10, est_s=400, heavy=True)
    for kind in ["std", "promo", "ep", "oo", "ooo"]:
        add(f"c01_filter_{kind}_{col}", ["C01"], "quick",
            f"remove_invalid_moves on a singleton list holding a Legalish {KIND_NAMES[kind]} by {cname}: kept <=> A misses the mover's king in the successor position; A requested for the opponent on the successor position; board bit-identical afterwards",
            ["remove_invalid_moves"] + APPLY_FNS[kind] + ["ChessMove::apply", "ChessMove::undo"], STEP_ASSUME + "; A arbitrary 64-bit attack map",
            stubs=[NOSPILL, ATTSTUB, APPENDSTUB], module=MG, est_s=200)
add("c01_filter_pair_w", ["C01"], "thorough",
    "remove_invalid_moves on two candidates: each is tried on the original position with its own attack map, kept independently, order preserved, board restored",
    ["remove_invalid_moves", "StandardChessMove::apply", "StandardChessMove::undo"], STEP_ASSUME, stubs=[NOSPILL, ATTSTUB, APPENDSTUB], module=MG, est_s=400, heavy=True)
for nm, d in [("m5_knight_table", "generate_knight_targets_table()[sq] == on-board L-jumps (no wrap-around), symbolic sq"),
              ("m5_king_table", "generate_king_targets_table()[sq] == adjacent on-board squares (no wrap-around), symbolic sq"),
              ("m5_tables_wired", "Targets::default() stores the king table in `kings` and the knight table in `knights`")]:
    add(nm, ["C11", "C01"], "quick", d, ["generate_knight_targets_table", "generate_king_targets_table", "Targets::default"],
        "symbolic square index over the concretely built 64-entry table",
        stubs=(["MagicTable::new -> empty tables (the magic tables are M1-M3's subject)"] if nm == "m5_tables_wired" else []),
        module=MG, unwind=66, est_s=60)

for piece in ["rook", "bishop"]:
    for start in ["00", "16", "32", "48"]:
        add(f"m1_{piece}_{start}", ["C11"], "quick",
            f"M1 {piece}, squares {int(start)}..{int(start)+15}, this build's magic constants: for EVERY 64-bit occupancy occ and EVERY subset b of the mask, magic_index(occ)==magic_index(b) => slider_moves(b) == reference rays(occ); index inside the square's segment; segments disjoint and inside the table",
            ["magic_index", "slider_moves", "try_offset", f"{piece.upper()}_MAGICS / {piece.upper()}_TABLE_SIZE (build-script output of this Kani build)"],
            "square concrete (16 per harness), occ: symbolic u64 (all 2^64), b: symbolic subset of the mask",
            module=MT, unwind=17, est_s=90)
add("witness_m1", ["C11"], "quick", "vacuity witness for M1: a constructive collision between two different relevant-blocker sets is reachable; must FAIL",
    ["magic_index"], "rook d4", kind="witness", module=MT, unwind=17, est_s=20)
add("m2_slider_moves_rook", ["C11"], "quick", "slider_moves(rook deltas, sq, b) == reference rook rays for symbolic sq and b",
    ["slider_moves", "try_offset", "to_rank_file", "from_rank_file"], "symbolic square, symbolic 64-bit blocker set", module=MT, unwind=9, est_s=60)
add("m2_slider_moves_bishop", ["C11"], "quick", "slider_moves(bishop deltas, sq, b) == reference bishop rays for symbolic sq and b",
    ["slider_moves", "try_offset", "to_rank_file", "from_rank_file"], "symbolic square, symbolic 64-bit blocker set", module=MT, unwind=9, est_s=60)
add("m2_lookup_standins", ["C11", "C01"], "quick", "the slider_moves-based stand-ins used where lookups are stubbed equal the reference rays",
    ["slider_moves"], "symbolic square, symbolic blockers", module=MT, unwind=9, est_s=60)
add("m3_make_table_small", ["C11"], "experimental",
    "real make_table on a harness-supplied magic set (2-bit masks on a1,d1,b2,d4, empty elsewhere, symbolic multiplier): every slot a subset indexes holds slider_moves of a subset with that index",
    ["make_table", "magic_index", "slider_moves"], "masks <= 2 bits on 4 representative squares; symbolic multiplier", module=MT, unwind=66, est_s=900, heavy=True)

EV = "evaluate::kani_verif::"
GENSTUB = "MoveGenerator::generate_moves -> symbolic empty / non-empty list + argument record; MoveGenerator::get_attack_targets -> arbitrary bitboard A + argument record; contracts discharged by C01 (legal-move set) and A1/C11 (attack map)"
for col, cname in [("w", "White"), ("b", "Black")]:
    add(f"c06_check_{col}", ["C06"], "quick",
        f"player_is_in_check({cname}) <=> {cname}'s king square lies in the attack map requested for the OPPONENT on THIS board; current_player_is_in_check asks about the side to move",
        ["player_is_in_check", "current_player_is_in_check"], "fully symbolic Disjoint board; A arbitrary", stubs=[NOSPILL, GENSTUB], module=EV, est_s=60)
    add(f"c06_ending_{col}", ["C06", "C18"], "quick",
        f"game_ending / player_is_in_checkmate for {cname} to move: Checkmate <=> no legal move and in check; Stalemate <=> no legal move and not in check; otherwise None; legal moves and attack map requested for the right sides on this board",
        ["game_ending", "player_is_in_checkmate", "current_player_is_in_check"],
        "fully symbolic Disjoint board; symbolic emptiness of the legal-move list; A arbitrary; repetition count != 3 and half-move clock < 50 (below every draw threshold); board.turn() == side asked about (what callers pass)",
        stubs=[NOSPILL, GENSTUB], module=EV, est_s=60)
    add(f"c16_draw_{col}", ["C16"], "quick",
        f"game_ending for {cname} to move reports Draw on move count <=> half-move clock >= 100 (symbolic clock, repetition count != 3)",
        ["game_ending"], "fully symbolic Disjoint board, symbolic half-move clock (all 256 values), symbolic move-list emptiness and attack map",
        stubs=[NOSPILL, GENSTUB], module=EV, est_s=60)
add("c18_tab", ["C18"], "quick", "table identity: bonus(white piece on sq) == bonus(black piece on 63-sq) for symbolic piece kind, phase and square; index maps in range; per-piece value in (0, 20050]",
    ["BONUS_TABLES", "SQUARE_TO_WHITE_BONUS_INDEX", "SQUARE_TO_BLACK_BONUS_INDEX", "MATERIAL_VALUES"], "symbolic (kind, phase, square)", module=EV, unwind=4, est_s=30)
add("c18_eg", ["C18"], "quick", "is_endgame(b) == is_endgame(mirror(b)) on a fully symbolic board (mirror = swap colours + rotate 180 degrees)",
    ["is_endgame"], "fully symbolic Disjoint board", module=EV, est_s=30)
add("c18_bound", ["C18"], "quick", "for per-side scores in [19000, 30600] the difference cannot overflow i16 and lies strictly inside (BLACK_WINS+255, WHITE_WINS-255)",
    ["WHITE_WINS", "BLACK_WINS", "the subtraction of board_material_score"], "two symbolic i16 in the range proved by c18_side", module=EV, unwind=4, est_s=10)
add("c18_mate", ["C18"], "quick", "score(): mate scores lie outside [-11855, 11855], are strictly monotone in the remaining depth (quicker mate better for the mating side), never overflow for depth 0..255; stalemate scores 0",
    ["score"], "fully symbolic Disjoint board, symbolic remaining depths d1,d2: u8, symbolic side to move; repetition count != 3",
    stubs=["game_ending -> harness-chosen verdict (its own contract: c06_ending_*)"], module=EV, est_s=60)
add("c18_sym_1", ["C18"], "thorough", "board_material_score(b) == -board_material_score(mirror(b)) for two kings + up to 1 further piece (kind, colour, square symbolic)",
    ["board_material_score", "player_material_score", "is_endgame"], "kings on symbolic squares + <=1 symbolic piece", module=EV, unwind=66, est_s=300)
add("c18_sym_2", ["C18"], "experimental", "board_material_score(b) == -board_material_score(mirror(b)) for two kings + up to 2 further pieces",
    ["board_material_score", "player_material_score", "is_endgame"], "kings on symbolic squares + <=2 symbolic pieces", module=EV, unwind=66, est_s=1500, heavy=True)
for col, cname in [("w", "White"), ("b", "Black")]:
    add(f"c18_side_{col}", ["C18"], "thorough",
        f"player_material_score for a fully symbolic {cname} side under the legal-material bound (pawns + extra queens/rooks/bishops/knights <= 8, one king, no pawn on rank 1/8 -- admits nine queens): no arithmetic overflow inside the real summation, 19000 <= value <= 30600",
        ["player_material_score", "is_endgame"], "fully symbolic Disjoint board; legal-material bound on the scored side", module=EV, unwind=66, est_s=400, heavy=True)

AN = "chess_move::algebraic_notation::kani_verif::"
SF = "game::stockfish_elo::kani_verif::"
NAMESTUB = "common::bitboard::square::to_algebraic -> table lookup NAME[trailing_zeros(sq)] without the 64-step shift-count loop; contract (equal on every one-hot input) discharged by c19_sq_*"
for start in ["00", "16", "32", "48"]:
    add(f"c19_sq_{start}", ["C19", "C13"], "quick",
        f"real to_algebraic on squares {int(start)}..{int(start)+15}: two bytes, 'a'+file then '1'+rank (lower case); equals the stand-in used by the SAN harnesses",
        ["common::bitboard::square::to_algebraic", "assert_square", "tables::ALGEBRAIC"], "16 concrete one-hot inputs per harness (the input space is the 64 squares: complete over 4 harnesses)",
        module=AN, unwind=66, est_s=120)
for n in range(4):
    add(f"c13_dis_piece_{n}", ["C13"], "quick",
        f"get_disambiguating_chars for a symbolic non-pawn piece, symbolic move and {n} rival move(s) from pairwise distinct origins: '' iff no rival; file letter if no rival shares the file; else rank digit if none shares the rank; else file+rank",
        ["get_disambiguating_chars", "get_file_char", "get_rank_char"], f"symbolic squares; exactly {n} rivals (list lengths concrete per harness); strings <= 2 bytes",
        stubs=[NOSPILL, NAMESTUB], module=AN, est_s=100)
for k, kn in [("std", "standard capture"), ("promo", "capturing promotion"), ("ep", "en passant")]:
    add(f"c13_dis_pawn_{k}", ["C13"], "quick",
        f"get_disambiguating_chars for a pawn {kn}: always the origin file letter; quiet pushes carry nothing",
        ["get_disambiguating_chars", "get_file_char"], "symbolic squares, symbolic captured kind; no rivals in the list", stubs=[NOSPILL, NAMESTUB], module=AN, est_s=100)
add("c13_sel", ["C13"], "quick",
    "get_ambiguous_moves on a symbolic board and a symbolic 3-entry candidate list: selects exactly the other candidates with the same piece kind on their origin, the same destination and a different origin; board only read",
    ["get_ambiguous_moves", "Board::get"], "fully symbolic Disjoint board; 3 symbolic candidates whose origins are occupied", stubs=[NOSPILL], module=AN, est_s=300)
add("c13_wire_enumerate", ["C13"], "quick",
    "enumerate_candidate_moves_with_algebraic_notation: requests the annotated move list once for the colour asked about, and returns exactly one (move, label) pair per listed move -- each listed move exactly once, including promotions that share origin and destination",
    ["enumerate_candidate_moves_with_algebraic_notation"], "fully symbolic Disjoint board, symbolic colour; three marker moves from the stubbed generator (two promotions with the same origin and destination, one standard move)",
    stubs=[NOSPILL, "MoveGenerator::generate_moves_and_lazily_update_chess_move_effects -> three marker moves + argument record (contract: c06_effect_wire_*, C01); chess_move_to_algebraic_notation -> recorder returning an empty String (contract: c13_dis_*, c13_sel, c13_parts, mir::san_assembly)"],
    module=AN, est_s=120, native=["c13w_gen", "c13w_label"])
add("c13_parts", ["C13"], "quick",
    "fixed-text selectors: 'x' exactly for captures (en passant included), '+' / '#' / nothing from the move effect, 'O-O' / 'O-O-O', no promotion suffix on non-promotions",
    ["get_capture_char", "get_check_or_checkmate_char", "algebraic_castle", "get_promotion_chars"], "symbolic squares, capture tag, effect, colour", module=AN, est_s=60)
for kind in ["std", "promo", "ep", "oo", "ooo"]:
    for col, cname in [("w", "White"), ("b", "Black")]:
        add(f"c19_cls_{kind}_{col}", ["C19"], "quick",
            f"create_chess_move_from_uci on the standard long-coordinate text of a Legalish {KIND_NAMES[kind]} by {cname} (text built from symbolic bytes), in the same position with the mover to move: result == the move (kind, squares, capture tag, promotion piece)",
            ["create_chess_move_from_uci", "Board::get", "Board::peek_en_passant_target", "Board::turn"],
            STEP_ASSUME.replace("; counters below 255", ""),
            stubs=["common::bitboard::square::square_string_to_bitboard (regex-based) -> arithmetic parser; NOT discharged: the regex parser is outside the claim"],
            module=SF, est_s=120)

VSTUB = "evaluate::player_is_in_checkmate / player_is_in_check -> arbitrary answers + record of (player, board occupancy) they were asked about; contracts: c06_ending_*, c06_check_*"
for kind in ["std", "promo", "ep", "oo", "ooo"]:
    for col, cname in [("w", "White"), ("b", "Black")]:
        add(f"c06_effect_{kind}_{col}", ["C06", "C13"], "quick",
            f"lazily_calculate_chess_move_effect on a Legalish {KIND_NAMES[kind]} by {cname}: applies the move, asks the verdicts about the OPPONENT on the SUCCESSOR position, undoes; stores Checkmate if mated, else Check if in check, else None; board bit-identical afterwards",
            ["MoveGenerator::lazily_calculate_chess_move_effect", "ChessMove::apply", "ChessMove::undo", "ChessMove::set_effect"] + APPLY_FNS[kind],
            STEP_ASSUME, stubs=[VSTUB], module=MG, est_s=200)
    
for col, cname in [("w", "White"), ("b", "Black")]:
    add(f"c06_effect_wire_{col}", ["C06", "C13"], "quick",
        f"generate_moves_and_lazily_update_chess_move_effects for {cname}: every listed move is annotated exactly once, with the opponent of the side to move; the annotated list is returned",
        ["MoveGenerator::generate_moves_and_lazily_update_chess_move_effects", "lazily_update_chess_move_effect_for_checks_and_checkmates"],
        "fully symbolic Disjoint board; two marker moves from the stubbed generator",
        stubs=[NOSPILL, "MoveGenerator::generate_moves -> two marker moves; MoveGenerator::lazily_calculate_chess_move_effect -> records its player argument, sets Check (its own contract: c06_effect_*)"],
        module=MG, est_s=120, native=["generate_moves_ewire", "effect_ewire"])
add("c19_uci_promo_suffix", ["C19"], "experimental",
    "ChessMove::to_uci of a capturing promotion a7xb8 for each of the four promotion pieces (the whole domain of the suffix selector) and of a plain move: origin, destination, suffix letter q/r/b/n naming the piece / no suffix",
    ["ChessMove::to_uci", "to_algebraic", "alloc::fmt::format"], "all arguments concrete (core::fmt with symbolic &str arguments is not executable in CBMC: >10 GB measured); exhaustive over the promotion piece, squares fixed",
    module=AN, unwind=66, est_s=300)

for hm in ["miss", "hit"]:
    add(f"c02_wire_move_cache_{hm}", ["C02"], "quick",
        f"MoveGenerator::generate_moves on a cache {hm}: the move cache is consulted under the key (this position's key, colour asked about); " +
        ("a miss generates for this board and colour, stores the result under the same key and returns it" if hm == "miss" else "a hit returns the stored list without generating or storing"),
        ["MoveGenerator::generate_moves"], "fully symbolic Disjoint board (symbolic key), symbolic colour; hit/miss concrete per harness",
        stubs=[NOSPILL, "lru::LruCache::get / ::put -> recorders of the key (hit/miss chosen by the harness): the LRU's own hashing/eviction is outside the claim; generate_valid_moves -> marker list + argument record (its contract: the C01 stage harnesses)"],
        module=MG, est_s=120, native=["lru_get", "lru_put", "gen_valid"])
add("c02_wire_attack_cache", ["C02", "C06"], "quick",
    "MoveGenerator::get_attack_targets: the attack cache is consulted and filled under (colour asked about, this position's key); a hit is returned as is; a miss generates for this board and colour and stores the result",
    ["MoveGenerator::get_attack_targets"], "fully symbolic Disjoint board, symbolic colour, symbolic cached value / miss",
    stubs=["Targets::get_cached_attack / cache_attack -> recorders (their own contract: c02_attack_store_wire); Targets::generate_attack_targets -> arbitrary bitboard + argument record"],
    module=MG, est_s=60, native=["acache_get", "acache_put", "attack_targets"])

add("c02_attack_store_wire", ["C02", "C06"], "quick",
    "Targets::get_cached_attack / cache_attack executed for real: the map is read / written exactly once, under the key (colour asked about, position key) in both directions, the value stored is the value passed, a stored entry is returned as stored",
    ["Targets::get_cached_attack", "Targets::cache_attack"], "symbolic colour, position key, value, hit / miss and replaced entry",
    stubs=["std::collections::HashMap::get / insert -> recorders of key and value (hashbrown does not terminate in CBMC even with concrete keys: measured > 900 s); the map's own get-after-insert behaviour is assumed"],
    module=MG, unwind=8, est_s=60, native=["map_get", "map_insert"])

UFSTUB = "MagicTable::get_rook_targets / get_bishop_targets -> uninterpreted per-square functions R[sq], B[sq] (symbolic [u64;64], exact within one call because the occupancy argument is computed once); tied to the reference rays by C11 (M1-M3)"
for col, cname in [("w", "White"), ("b", "Black")]:
    add(f"c01_pawn_attacks_{col}", ["C01", "C06"], "quick",
        f"generate_pawn_attack_targets for {cname}: one entry per own pawn, attack set == its two forward diagonals with no wrap across the a/h files, entries distinct",
        ["generate_pawn_attack_targets"], "fully symbolic Disjoint board; <=8 own pawns, none on rank 1/8", stubs=[NOSPILL], module=MG, unwind=66, est_s=150, native=[])
    add(f"c01_pawn_targets_{col}", ["C01"], "quick",
        f"generate_pawn_move_targets for {cname}: exactly the own pawns with a push available, targets == single push to an empty square plus the double push from the home rank through two empty squares",
        ["generate_pawn_move_targets"], "fully symbolic Disjoint board; <=8 own pawns, none on rank 1/8", stubs=[NOSPILL], module=MG, unwind=66, est_s=200, native=[])
    add(f"c01_expand_{col}", ["C01"], "thorough",
        f"expand_piece_targets for {cname}: one Standard move per target bit (<=27), origin preserved, capture tag == enemy piece on the destination, appended after existing entries, no duplicates",
        ["expand_piece_targets", "PieceSet::get", "Bitboard::pop_lsb"], "fully symbolic Disjoint board; one symbolic (square, targets) entry with <=27 targets disjoint from own pieces", stubs=[NOSPILL], module=MG, unwind=30, est_s=400, heavy=True, native=[])
    add(f"c01_slider_{col}", ["C01", "C06", "C11"], "thorough",
        f"generate_sliding_targets for {cname} (k-piece shape: own king + <=2 further own pieces of symbolic kind and square, opponent side fully symbolic): one entry per own rook/bishop/queen with targets == lookup(square) minus own pieces (queen: rook|bishop lookup), nothing for other pieces, lookups given the whole-board occupancy",
        ["Targets::generate_sliding_targets"], "k-piece shape, see claim", stubs=[NOSPILL, UFSTUB], module=MG, unwind=66, est_s=600, heavy=True, native=["uf_rook", "uf_bishop"])
    for pc in ["knight", "king"]:
        add(f"c01_leaper_{pc}_{col}", ["C01", "C06"], "thorough",
            f"generate_targets_from_precomputed_tables({pc}) for {cname} with uninterpreted tables: entries == {{(sq, table[sq] minus own pieces) : sq holds an own {pc}, set non-empty}}, complete and duplicate-free",
            ["Targets::generate_targets_from_precomputed_tables", "Targets::get_precomputed_targets"], "fully symbolic Disjoint board; <=3 own pieces of the kind; tables symbolic [u64;64] (their contents: m5_*)", stubs=[NOSPILL], module=MG, unwind=66, est_s=400, heavy=True, native=[])
    add(f"c01_expand4_{col}", ["C01"], "quick",
        f"expand_piece_targets for {cname}, small shape (<=4 targets): one Standard move per target bit, origin preserved, capture tag == enemy piece on the destination, appended after existing entries, no duplicates",
        ["expand_piece_targets", "PieceSet::get", "Bitboard::pop_lsb"], "fully symbolic Disjoint board; one symbolic (square, targets) entry with <=4 targets disjoint from own pieces", stubs=[NOSPILL], module=MG, unwind=8, est_s=120, native=[])
    add(f"a1_union_{col}", ["C01", "C06"], "quick",
        f"generate_attack_targets for {cname} with its four builders stubbed: each builder runs once for the requested colour, the attack map is the union of all target sets",
        ["Targets::generate_attack_targets"], "fully symbolic Disjoint board; symbolic builder outputs",
        stubs=[NOSPILL, "generate_pawn_attack_targets, Targets::generate_sliding_targets, Targets::generate_targets_from_precomputed_tables -> push one symbolic entry + record the colour; contracts: c01_pawn_attacks_*, c01_slider_*, c01_leaper_*"],
        module=MG, est_s=60, native=["acache_get", "acache_put", "attack_targets"])

for col, cname in [("w", "White"), ("b", "Black")]:
    add(f"c06_checkmate_{col}", ["C06"], "quick",
        f"player_is_in_checkmate({cname}) <=> no legal move and in check, for EVERY value of the half-move clock and the repetition bookkeeping (the verdict must not depend on them)",
        ["player_is_in_checkmate", "player_is_in_check"], "fully symbolic Disjoint board; all counters symbolic; symbolic emptiness of the move list; A arbitrary",
        stubs=[NOSPILL, GENSTUB], module=EV, est_s=60)
add("c01_filter_pair_promo_b", ["C01"], "thorough",
    "remove_invalid_moves on two promotion candidates by Black (e.g. two pawns capturing onto the same last-rank square): each is tried with its own attack map and kept or dropped on its own verdict, order preserved, board restored",
    ["remove_invalid_moves", "PawnPromotionChessMove::apply", "PawnPromotionChessMove::undo"], STEP_ASSUME, stubs=[NOSPILL, ATTSTUB, APPENDSTUB], module=MG, est_s=600, heavy=True)

add("c13_piece_letters", ["C13"], "quick", "Piece::to_algebraic_str for all six pieces: '', N, B, R, Q, K (piece prefix and '=X' promotion suffix letters)",
    ["Piece::to_algebraic_str", "ALGEBRAIC_PIECE_STRS"], "all six pieces (the whole domain)", module=AN, est_s=20)

for nm, d in [("knight", "white Ng1-f3 from the starting position"), ("king", "white Ke1-e2 (the king square changes)"), ("capture", "black Ra8xa1 (home rook captured)"),
              ("ep", "white e5xd6 en passant"), ("castle", "white O-O"), ("promo", "black b2xa1=N")]:
    add(f"c01_filter_fixed_{nm}", ["C01"], "thorough",
        f"remove_invalid_moves on a FIXED position and candidate ({d}) with the attack map as the symbolic variable (all 2^64 maps): kept <=> the map misses the mover's king on the successor; map requested once, for the opponent, on the successor; board restored",
        ["remove_invalid_moves", "ChessMove::apply", "ChessMove::undo"], "position and move concrete; attack map symbolic", stubs=[NOSPILL, ATTSTUB, APPENDSTUB], module=MG, est_s=120, native=["attack_targets"])
add("c01_filter_fixed_promo_pair_b", ["C01"], "thorough",
    "remove_invalid_moves on a FIXED position with two capturing promotions onto the same square (black d2xe1, f2xe1; promotion pieces symbolic) and two independent symbolic attack maps: every candidate is tried on the board, each is kept or dropped on its own verdict, order preserved, board restored",
    ["remove_invalid_moves", "PawnPromotionChessMove::apply", "PawnPromotionChessMove::undo"], "position concrete; promotion pieces and both attack maps symbolic",
    stubs=[NOSPILL, ATTSTUB, APPENDSTUB], module=MG, est_s=200, native=["attack_targets"])

add("c01_leaper1_knight_w", ["C01", "C06"], "quick",
    "generate_targets_from_precomputed_tables(knight) for White, small shape (<=1 knight), uninterpreted tables: entry == (square, table[square] minus own pieces) iff the set is non-empty",
    ["Targets::generate_targets_from_precomputed_tables", "Targets::get_precomputed_targets"], "fully symbolic Disjoint board; <=1 own knight; tables symbolic [u64;64]", stubs=[NOSPILL], module=MG, unwind=66, est_s=150, native=[])
add("c01_leaper2_knight_b", ["C01", "C06"], "quick",
    "generate_targets_from_precomputed_tables(knight) for Black with <=2 knights, uninterpreted tables: both knights listed iff their sets are non-empty (one knight's empty set must not hide the other), entries == (square, table[square] minus own pieces), no duplicates",
    ["Targets::generate_targets_from_precomputed_tables", "Targets::get_precomputed_targets"], "fully symbolic Disjoint board; <=2 own knights; tables symbolic [u64;64]", stubs=[NOSPILL], module=MG, unwind=66, est_s=460, native=[])
add("c01_leaper1_king_b", ["C01", "C06"], "quick",
    "generate_targets_from_precomputed_tables(king) for Black, small shape (<=1 king), uninterpreted tables: entry == (square, table[square] minus own pieces) iff the set is non-empty",
    ["Targets::generate_targets_from_precomputed_tables", "Targets::get_precomputed_targets"], "fully symbolic Disjoint board; <=1 own king; tables symbolic [u64;64]", stubs=[NOSPILL], module=MG, unwind=66, est_s=150, native=[])


def witness(name, props, module, desc, unwind=8, est_s=60):
    add(name, props, "quick", "vacuity witness: " + desc + "; same set-up as the obligations of this family, ends in assert!(false); must FAIL on exactly that assertion",
        [], "as the obligation harnesses of its family", kind="witness", module=module, unwind=unwind, est_s=est_s)


witness("witness_h3", ["C05", "C02"], BOARD, "per-mutator key lemma (push_en_passant_target)")
witness("witness_c12_put_remove", ["C12"], BOARD, "put/remove step")
witness("witness_c01_castle_w", ["C01"], MG, "castle stage")
witness("witness_c01_ep_b", ["C01"], MG, "en-passant stage")
witness("witness_c06_ending_w", ["C06"], EV, "game_ending verdicts")
witness("witness_c18_eg", ["C18"], EV, "phase-switch symmetry")
witness("witness_c13_dis_2", ["C13"], AN, "disambiguation with 2 rivals")
witness("witness_c19_cls_std_w", ["C19"], SF, "UCI classifier, standard move")
add("c02_hist_3ply", ["C02", "C05"], "thorough",
    "two symbolic 3-ply histories (pawn pushes / knight jumps onto empty squares, real apply) from the standard position: equal placement and rights => (keys equal <=> en-passant targets equal)",
    ["StandardChessMove::apply", "Board::put/remove/push_en_passant_target/lose_castle_rights", "PositionInfo toggles (real tables)"],
    "both histories fully symbolic within the move class; start position concrete", est_s=1500, heavy=True)

import os
EXPERIMENTAL = bool(os.environ.get("VERIF_EXPERIMENTAL"))


def select(prop, tier):
    out = []
    for h in H:
        if h["tier"] == "experimental" and not EXPERIMENTAL:
            continue
        if prop in h["props"] and (tier == "thorough" or h["tier"] == "quick"):
            out.append(h)
    return out


TECH = "bounded model checking of the real code: Kani harnesses over symbolic inputs -> CBMC symbolic execution -> CaDiCaL SAT verdict; counterexamples replayed natively"

PROPS = {
    "C02": dict(
        outside="genuine 64-bit collisions between non-neighbouring positions; the LRU's own hashing and eviction; capacity 10^8",
        explanation='Reduction: both caches are consulted and filled under (position key, colour asked about) (c02_wire_*); the key is a function of (placement, rights, en-passant target) for every draw of the tables (hmove_*, hsetup_any_mutator: toggle parity == feature changed; h2: each toggle XORs exactly its constant) and separates neighbouring positions on this draw (c02_sep_*, h1, h3_*); so a cached answer can only be served for a position with the same placement, rights, target and colour.',
        title="Move and attack queries do not depend on what the generator was asked before", jobs=16,
        technique=TECH + "; reduction: cache key = (position key, colour), so history-independence <=> key is a function of (placement, rights, ep) and separates neighbouring positions",
        level_text="Bounded model checking by reduction. Both generator caches are keyed by (position key, colour) and store a value that depends only on (placement, rights, ep, colour); the solver shows, on fully symbolic boards, that every board mutator and every move kind (apply and undo) toggles exactly the key constants of the features it changes -- for every draw of the tables (ghost-log harnesses) and on this build's real tables (per-mutator lemmas) -- and that single-feature edits always change the key. Thorough adds two symbolic 3-ply histories from the start position.",
        level_note="Assumes: RepInv on the symbolic pre-state (C12 proves it inductive); genuine 64-bit collisions between non-neighbouring positions, the LRU's eviction policy and capacity are outside the claim; the LRU's and the hash map's own store/lookup behaviour is assumed (lru / hashbrown do not terminate in CBMC, measured; their get / put / insert are recorder stand-ins in c02_wire_move_cache_*, c02_attack_store_wire). Trusted: Kani/CBMC/CaDiCaL, the reference rules in harness/files/src/verif_ref.rs.",
    ),
    "C03": dict(
        outside="moves that are not rules-shaped (apply's behaviour on garbage moves is not part of the property)",
        explanation='One step of the board state machine from an arbitrary invariant-satisfying state (the invariant is proved inductive under C12), differential against verif_ref::successor, for every move kind x colour.',
        title="Making a legal move yields the successor position the rules prescribe", jobs=16,
        technique=TECH + "; one step of the board state machine from an arbitrary invariant-satisfying state, differential against an independent reference successor function",
        level_text="Bounded model checking of one step: for a fully symbolic board under the representation invariant and a symbolic rules-shaped move of each kind x colour, the solver shows apply() returns Ok and the 12 bitboards, en-passant target, castling rights and turn equal an independent reference successor; covers all ~2^700 pre-states per query rather than sampled positions.",
        level_note="Assumes RepInv on the pre-state (proved inductive under C12) and Legalish moves (superset of legal moves: own-king safety not required). Bounds: unwind 8 (all loops in this code are <=7 iterations; unwinding assertions on). Trusted: Kani/CBMC/CaDiCaL, the reference rules.",
    ),
    "C04": dict(
        outside='the search and annotation callers are covered through the moves they apply and undo, not by executing them',
        explanation='Induction on the nesting depth: the stacks are [symbolic prefix, top]; apply grows each stack by exactly one and leaves the prefix alone, undo pops exactly one and restores every raw field; the key is restored because apply;undo toggles every feature an even number of times (hmove_*), for every draw of the tables.',
        title="Undo restores the previous state exactly, to any nesting depth", jobs=16,
        technique=TECH + "; inductive step in the stack depth: stacks modelled as [symbolic prefix, top]",
        level_text="Bounded model checking of apply;undo per move kind x colour on a fully symbolic board: every raw field (12 bitboards, occupancy summaries, ep/rights/half-move stacks incl. depths and untouched prefixes, move counter, turn, repetition bookkeeping) is restored; the key is shown restored for every draw of the tables via the toggle-parity (ghost log) harnesses. Any nesting depth follows by induction on the stack depth, because the step is proved for an arbitrary prefix.",
        level_note="Assumes RepInv + Legalish as in C03; the search/annotation callers are covered only through the moves they apply and undo (C01.filter / C06.effect), not by executing the search. Trusted: Kani/CBMC/CaDiCaL, reference rules.",
    ),
    "C05": dict(
        outside="H1 (non-zero, pairwise distinct constants) is per draw by nature: decided for the draw of this run's Kani build and for every OUT_DIR table under <repo>/target",
        explanation="Invariant key = XOR of the constants of the position's features (+ the constant of the initial rights set): holds for Board::new (h0), is preserved by each of the 7 mutators (h3_* on this draw's real tables; hsetup_any_mutator for every draw) and by apply / apply;undo of every move kind (hmove_*); each toggle XORs exactly its feature's constant (h2); writers of the key field are only the three toggles (syntactic side condition).",
        title="The position key is a pure function of the position, independent of history", jobs=16,
        technique=TECH + "; invariant 'key = XOR of the constants of the position's features' shown preserved by every mutator and move (per-mutator lemmas on the real tables + toggle-parity ghost log for every draw)",
        level_text="Bounded model checking of the key invariant: H0 (fresh board), H1 (848 constants of this draw non-zero, pairwise distinct), H2 (each toggle XORs exactly its feature's constant), H3 (each of the 7 board mutators changes the key by exactly the constants of the features it changes, real tables, fully symbolic board), Hmove (apply and apply;undo of every move kind toggle exactly the changed features -- parity argument valid for every draw), separation of neighbouring positions. By induction over mutator calls the key is a function of (placement, rights, ep).",
        level_note="Side condition checked syntactically on the tree: the key field is written only inside the three toggle functions, piece sets only inside put/remove. H1 is per draw by nature (each check run sees a fresh draw, the build script runs inside the Kani build). Trusted: Kani/CBMC/CaDiCaL.",
    ),
    "C01": dict(
        outside="boards with >16 pieces or >8 pawns per side; lists beyond SmallVec's inline capacity inside one stage harness (a spill is a reported failure); the slider stage beyond king + 2 own pieces (opponent side fully symbolic); two real stages are never run back to back",
        explanation="Composition: every stage of generate_valid_moves meets its contract against the reference rules (c01_ep, c01_castle, c01_pawn_*, c01_expand*, c01_slider, c01_leaper*, m5_*, c01_filter_* per move kind, c01_filter_pair_*), and the wiring lemmas (c01_wire_*: all six stages stubbed; c01_wire_pawn_*: the four pawn sub-stages stubbed) show the stages are called once each with the caller's board and colour, filtered last, and returned. The attack map is an arbitrary bitboard in the castle / filter stages; its exactness is a1_union + c01_pawn_attacks + c01_slider + c01_leaper + C11.",
        title="Generated moves are exactly the legal moves of chess", jobs=16, jobs_thorough=8, jobs_heavy=3, mem_gb=14, timeout_thorough=7200,
        technique=TECH + "; compositional: per-stage contracts against independent reference rules + a wiring lemma with all stages stubbed",
        level_text="Bounded model checking, compositional. The whole generator cannot be symbolically executed (measured), so each stage of generate_valid_moves is checked on fully symbolic boards against independent reference rules (en passant, castling conditions, pawn pushes/captures/promotions, leaper tables, slider stage, target expansion, legality filter per move kind), and two wiring lemmas on the real generate_valid_moves / generate_pawn_moves with every stage stubbed show the stages are composed as the argument assumes. The attack map is an arbitrary bitboard in the castle and filter stages; its exactness is discharged by the A1 lemmas and C11.",
        level_note="Never runs two real stages back to back: 'each stage meets its contract' and 'the stages are wired as shown' => 'output is the legal set' is a propositional step. SmallVec's heap-spill path is cut (a spill inside a harness is a reported failure). Boards with >16 pieces or >8 pawns per side are outside the claim. Trusted: Kani/CBMC/CaDiCaL, reference rules.",
    ),
    "C11": dict(
        outside="masks with more than 3 (quick) / 4 (thorough) bits in the make_table loop lemma; the precompile crate's own functions (a changed generator is caught through M1 on the draw it produces); termination of the magic search",
        explanation="M1 (per square, all 2^64 occupancies x all mask subsets sharing the slot: what make_table writes is the reference ray set; segments disjoint and in range), M2 (the ray walker equals the reference rays), M3 (MIR/z3: the fill loop visits every subset and writes table[magic_index(b)] = slider_moves(b)), M5 (knight / king tables), on the constants of this run's build and (thorough) of the builds under <repo>/target.",
        title="Attack geometry tables are exact for every square, occupancy and build", jobs=16, jobs_thorough=8, timeout_thorough=7200,
        technique=TECH + "; per-square all-occupancy queries over this build's real magic constants (2^64 occupancies x all mask subsets per square), reference ray walker as oracle; plus a bounded loop lemma for make_table decided by z3 over the function's MIR (symbolic executor of the nightly MIR dump, bit-vector queries)",
        level_text="Bounded model checking over the build-generated constants: for each of the 128 (piece, square) pairs the solver shows that for every 64-bit occupancy and every mask subset that shares its slot, the value make_table writes (slider_moves) equals the reference ray walk -- so last-writer-wins cannot hurt and extra pieces elsewhere do not matter; segments are disjoint and in range; slider_moves equals the reference rays for symbolic square and blockers; knight/king tables equal the reference for every square. Each check run sees a fresh draw of the constants (the build script runs inside the Kani build).",
        level_note="make_table's fill loop is decided on its MIR by z3 for masks of <= 3 bits (one arbitrary square and entry; slider_moves / magic_index uninterpreted there, their contracts are M1/M2); CBMC cannot get through make_table (measured). The generator crate's own functions (precompile) are not encoded: a changed generator is caught through M1 on the draw it produces, which every run regenerates. The build script's search terminating is outside the claim. Trusted: Kani/CBMC/CaDiCaL, z3 4.8.12, the MIR text parser in lib/mirloop.py, reference rays in verif_ref.rs.",
    ),
    "C06": dict(
        outside="generators that have served earlier queries: C02's reduction; legal-move emptiness: C01",
        explanation='Verdict logic with the generator entry points replaced by arbitrary answers plus argument records; attack-map exactness from a1_union + c01_pawn_attacks + c01_slider + c01_leaper + C11 (M1, M2, m5).',
        title="Check, checkmate and stalemate verdicts and move annotations are exact", jobs=16, jobs_thorough=8, timeout_thorough=7200,
        technique=TECH + "; verdict functions executed with the generator entry points stubbed by arbitrary results + ghost records of their arguments (wiring lemmas), composed with C01 and the attack-map lemmas",
        level_text="Bounded model checking of the verdict logic: on fully symbolic boards the solver shows in-check <=> king square in the attack map requested for the opponent on this board; checkmate <=> in check and no legal move; stalemate <=> not in check and no legal move; annotation applies the move, classifies the opponent on the successor position, undoes, and stores Checkmate/Check/None accordingly with the board restored. Legal-move emptiness and attack-map exactness are C01's and C11/A1's obligations.",
        level_note="Generator entry points are stubbed (arbitrary results, arguments recorded); 'generators that served earlier queries' is C02's reduction. Trusted: Kani/CBMC/CaDiCaL.",
    ),
    "C18": dict(
        outside='symmetry of the summation for more than 1 further piece besides the kings rests on the table identity + additivity of the loop (read)',
        explanation='Table identity (c18_tab) + phase-switch symmetry on fully symbolic boards (c18_eg) + full score symmetry for kings + <=1 piece (c18_sym_1, thorough) + per-side range under the legal-material bound incl. nine queens (c18_side_*, thorough) + c18_bound (difference inside the mate band, no overflow) + c18_mate (monotone in depth 0..255, stalemate 0).',
        title="Static evaluation is colour-symmetric and always dominated by mate scores", jobs=16, jobs_thorough=6, timeout_thorough=4500,
        technique=TECH + "; table identity + phase-switch symmetry on fully symbolic boards + bounded-piece equivalence + per-side range with Kani's overflow checks",
        level_text="Bounded model checking split by what the SAT solver can decide: the bonus-table identity that makes evaluation symmetric for any number of pieces, symmetry of the game-phase switch on a fully symbolic board, full score symmetry for kings plus <=1 (quick) / <=2 (thorough) symbolic pieces, per-side range [19000,30600] with no overflow under the legal-material bound incl. nine queens (thorough), the arithmetic consequence that static scores stay strictly inside the mate band, and mate-score monotonicity in remaining depth 0..255 with stalemate = 0.",
        level_note="Symmetry of the summation loop beyond 2 extra pieces rests on the table identity plus additivity of the loop (read, not solved: the monolithic equivalence did not finish in 25 min, measured). Trusted: Kani/CBMC/CaDiCaL.",
    ),
    "C13": dict(
        outside='uniqueness over whole real move lists is derived (C01 exact set + disambiguation kernel), not executed; callee bodies in the MIR stage are uninterpreted',
        explanation="Kernels by CBMC (disambiguation rule per number of rivals, rival selection, capture / check / castle texts, piece letters, square names, move annotation), assembly order and '=X' suffix by z3 over the MIR of the two functions that call format!.",
        title="Every legal move gets its standard, unambiguous algebraic notation", jobs=16,
        technique=TECH + "; kernel-level: disambiguation rule, rival selection and fixed-text selectors on symbolic inputs; the format! assembly (order and origin of the six parts, '=X' suffix) decided by z3 string queries over the functions' MIR (path enumeration of the nightly MIR dump)",
        level_text="Bounded model checking of the SAN kernels: the disambiguator equals the SAN rule for a symbolic piece, move and up to 3 rivals (so two like pieces never get the same label for the same destination), rival selection picks exactly the like-piece same-destination other-origin candidates on a symbolic board, pawn captures carry the file, capture / check / mate / castle texts are selected correctly, and square names are the standard ones for all 64 squares.",
        level_note="core::fmt cannot be executed by CBMC (symbolic &str: >10 GB; concrete: no verdict in 50 min), so what chess_move_to_algebraic_notation and get_promotion_chars hand to format! is decided on their MIR: per path, produced text == piece letter ++ disambiguator ++ capture mark ++ destination ++ promotion suffix ++ check suffix (castle: castle text ++ check suffix; promotion: '=' ++ piece letter), callees uninterpreted (their contracts are the CBMC kernels). Uniqueness over whole move lists is derived from C01 + the kernels, not executed. A changed SIGNATURE of a private helper makes its harness file uncompilable: those obligations become inconclusive (exit 2). Trusted: Kani/CBMC/CaDiCaL, z3, lib/mirfmt.py.",
    ),
    "C19": dict(
        outside='upper-case or malformed square text (never produced by to_uci); the Stockfish process',
        explanation="Square names for all 64 squares (c19_sq_*), classifier round trip per move kind x colour on symbolic boards with the text built from symbolic bytes (c19_cls_*), to_uci's assembly by z3 over its MIR (mir::to_uci_text), the text -> square stand-in of the classifier harnesses validated against the real function on all 64 names (native::text_to_square_contract).",
        title="Coordinate (UCI) move text is standard and survives the Stockfish bridge", jobs=16,
        technique=TECH + "; square-name function over all 64 inputs + classifier round trip on symbolic boards with the text built from symbolic bytes; to_uci's format! assembly (origin, destination, q/r/b/n per promotion piece) decided by z3 string queries over the function's MIR",
        level_text="Bounded model checking of the two decidable halves: to_algebraic yields the standard lower-case name for every square, and create_chess_move_from_uci, fed the standard text of a symbolic Legalish move of each kind in a fully symbolic invariant-satisfying position with the mover to move, reconstructs exactly that move (kind, squares, capture tag, promotion piece).",
        level_note="ChessMove::to_uci's text assembly is decided on its MIR (per path: origin ++ destination ++ the letter of that promotion piece; a returning path for each of the four pieces), because core::fmt is not executable in CBMC (measured). square_string_to_bitboard compiles and runs a regular expression, which CBMC cannot execute: the classifier harnesses replace it by an arithmetic stand-in, and that stand-in's contract is validated by running the real function natively on its whole domain there, the 64 lower-case square names (obligation native::text_to_square_contract -- an exhaustive differential run, not a solver query). Outside the claim: upper-case or malformed square text, the Stockfish process. Trusted: Kani/CBMC/CaDiCaL, z3, lib/mirfmt.py.",
    ),
    "C12": dict(
        outside='states reached by moves that are not rules-shaped (generator legality is C01)',
        explanation='Inductive invariant: base cases (starting position, empty board, put/remove) + RepInv(pre) and Legalish(move) => RepInv(post) and RepInv(state after undo), per move kind x colour on a fully symbolic board; Legalish includes king-exposing moves, so the transient states inside legality filtering, annotation and search are covered.',
        title="Board representation invariants hold in every reachable state", jobs=16,
        technique=TECH + "; inductive invariant: RepInv(pre) and rules-shaped move => RepInv(post), plus base cases",
        level_text="Inductive invariant checked by bounded model checking: base cases (starting position, empty board, put/remove) and, per move kind x colour on a fully symbolic board, RepInv(pre) and Legalish(move) => RepInv(post) with occupancy summaries agreeing with per-square contents and rights only shrinking; Legalish includes king-exposing moves, so the transient states inside legality filtering, annotation and search are covered.",
        level_note="Undo returns to the pre-state (C04). Bounds: unwind 8 / 70 for the base case. Trusted: Kani/CBMC/CaDiCaL, the invariant's statement in verif_ref.rs::rep_inv.",
    ),
    "C16": dict(
        outside='half-move clocks above 200 on the pre-state (u8 clock); move counters above 100000',
        explanation="Per-step counter lemmas for every move kind x colour with symbolic counters (Kani's overflow checks are the 'never wraps or aborts' oracle) + the draw threshold of game_ending for all 256 clock values.",
        title="Move counters are faithful; move-count draw follows the fifty-move rule", jobs=16,
        technique=TECH + "; per-step counter lemmas with symbolic counters, Kani's arithmetic-overflow checks as the 'never wraps or aborts' oracle",
        level_text="Bounded model checking of the counters across one move of every kind x colour with symbolic counter values: half-move clock resets exactly on captures and pawn moves and otherwise advances by one, the move counter advances by one and undo restores both, with no arithmetic overflow for any move-counter value up to 100000 plies; game_ending reports the move-count draw exactly at clock >= 100.",
        level_note="Assumes half-move clock <= 200 on the pre-state (a legal game ends long before; the u8 clock itself is outside the property). Trusted: Kani/CBMC/CaDiCaL, reference rules.",
    ),
}
