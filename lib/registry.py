"""Harness registry: which Kani harness decides which clause of which property.

Every entry is one solver obligation (a #[kani::proof] harness in /verif/harness/files or in an
appended child module). `props` lists the properties whose check runs it; `tier` is the lowest tier
that runs it ("quick" harnesses also run in thorough). `kind`: obligation | witness (a twin ending
in assert!(false) that must FAIL: reachability / vacuity guard).
"""

BOARD = "board::kani_verif::"

COMMON_TRUST = [
    "rustc -> Kani MIR lowering (kani 0.68.0)",
    "CBMC 6.11.0 symbolic execution and bit-blasting",
    "CaDiCaL SAT verdict",
    "the reference rules in /verif/harness/files/src/verif_ref.rs (no engine code is called from it)",
]

KIND_NAMES = {
    "std": "standard move (quiet, capture, double pawn step; any piece)",
    "promo": "promotion (4 pieces, with and without capture)",
    "ep": "en passant capture",
    "oo": "king-side castle",
    "ooo": "queen-side castle",
}

H = []


def add(name, props, tier, desc, functions, assumptions, stubs=(), unwind=8, kind="obligation",
        module=BOARD, est_s=60, heavy=False, witness_of=None):
    H.append(dict(name=name, fq=module + name, props=list(props), tier=tier, desc=desc,
                  functions=list(functions), assumptions=assumptions, stubs=list(stubs), unwind=unwind,
                  kind=kind, est_s=est_s, heavy=heavy, witness_of=witness_of))


APPLY_FNS = {
    "std": ["StandardChessMove::apply", "StandardChessMove::undo", "get_en_passant_target_square",
            "get_lost_castle_rights_if_rook_or_king_moved", "get_lost_castle_rights_if_rook_taken"],
    "promo": ["PawnPromotionChessMove::apply", "PawnPromotionChessMove::undo", "StandardChessMove::apply",
              "StandardChessMove::undo"],
    "ep": ["EnPassantChessMove::apply", "EnPassantChessMove::undo"],
    "oo": ["CastleChessMove::apply", "CastleChessMove::undo", "CastleChessMove::castle_kingside"],
    "ooo": ["CastleChessMove::apply", "CastleChessMove::undo", "CastleChessMove::castle_queenside"],
}
BOARD_FNS = ["ChessMove::apply", "ChessMove::undo", "Board::put", "Board::remove", "Board::get",
             "PieceSet::put/remove/get", "Board::push/pop_en_passant_target", "Board::lose/pop/preserve_castle_rights",
             "MoveInfo::* (stacks, clocks)", "PositionInfo::update_zobrist_hash_toggle_*"]

STEP_ASSUME = ("pre-state: fully symbolic 12 bitboards + ep + rights under RepInv (pairwise disjoint, one king per side, "
               "no pawn on rank 1/8, held right => king and rook at home, ep consistent with the side that just moved, "
               "<=16 pieces per side); stacks are [symbolic prefix, top]; move: symbolic Legalish move of this kind "
               "(rules-shaped incl. geometry and clear paths, not capturing a king; own-king safety NOT required, so "
               "transient states inside legality filtering are covered); counters below 255")

for kind in ["std", "promo", "ep", "oo", "ooo"]:
    for col, cname in [("w", "White"), ("b", "Black")]:
        quick = "quick" if kind in ("std", "oo", "ooo", "ep") else "thorough"
        add(f"c03_apply_{kind}_{col}", ["C03"], "quick",
            f"apply of a {KIND_NAMES[kind]} by {cname}: Ok, post-state == rules' successor (12 bitboards, ep, rights), turn unchanged, get() agrees",
            APPLY_FNS[kind] + BOARD_FNS, STEP_ASSUME, est_s=80)
        add(f"c04_undo_{kind}_{col}", ["C04"], "quick",
            f"apply;undo of a {KIND_NAMES[kind]} by {cname}: every raw field, stack tops, depths (+1 then -1), prefixes, counters, repetition bookkeeping restored",
            APPLY_FNS[kind] + BOARD_FNS, STEP_ASSUME, est_s=120)
        add(f"c12_inv_{kind}_{col}", ["C12"], "quick",
            f"RepInv(pre) and Legalish {KIND_NAMES[kind]} by {cname} => RepInv(post), summaries agree, rights only shrink",
            APPLY_FNS[kind] + BOARD_FNS, STEP_ASSUME, est_s=100)
        add(f"c16_step_{kind}_{col}", ["C16"], "quick",
            f"counters across a {KIND_NAMES[kind]} by {cname}: half' = 0 on capture/pawn move else half+1; full' = full+1; undo restores; no overflow (Kani arithmetic checks)",
            APPLY_FNS[kind] + BOARD_FNS,
            STEP_ASSUME.replace("counters below 255", "move counter anywhere in 0..=100000 (as far as the field's type holds it), half-move clock <= 200"),
            est_s=80)
        add(f"hmove_{kind}_{col}", ["C05", "C04", "C02"], "quick",
            f"key toggles over apply and apply;undo of a {KIND_NAMES[kind]} by {cname}: for an arbitrary feature id, parity of its toggles == (holds before) XOR (holds after); even over apply;undo; key field written only via the toggles",
            APPLY_FNS[kind] + BOARD_FNS, STEP_ASSUME,
            stubs=["PositionInfo::update_zobrist_hash_toggle_piece/_en_passant_target/_castling_rights -> ghost recorders (log the feature id instead of XORing); discharged by h2_toggles_exact"],
            unwind=30, est_s=120)

add("witness_step_std_w", ["C03", "C04", "C12", "C16", "C05"], "quick",
    "vacuity witness: same pre-state and move assumptions as the step harnesses, ends in assert!(false); must FAIL",
    ["StandardChessMove::apply"], STEP_ASSUME, kind="witness", est_s=60)

add("c12_base_start_and_new", ["C12"], "quick",
    "base case: Board::starting_position() and Board::new() satisfy RepInv; summaries agree",
    ["Board::starting_position", "chess_position! macro", "Board::new", "Board::put"], "none (concrete)", unwind=70, est_s=60)
add("c12_put_remove_step", ["C12"], "quick",
    "put/remove on an arbitrary Disjoint board: put succeeds iff square empty, squares stay single-occupied, summaries exact",
    ["Board::put", "Board::remove", "Board::get", "PieceSet::put/remove/get"],
    "pre-state: fully symbolic Disjoint board; symbolic square, piece, colour", est_s=30)

H_ASSUME = "pre-state: fully symbolic Disjoint board (12 bitboards pairwise disjoint, ep empty or one-hot, rights<16), stacks [prefix, top]; real Zobrist tables of this build's draw"
add("h0_new_board", ["C05", "C02"], "quick", "Board::new(): key 0, all rights, no ep, empty placement, stack depth 1",
    ["Board::new", "MoveInfo::new", "PositionInfo::new"], "none (concrete)", unwind=4, est_s=5)
add("h1_constants_distinct", ["C05", "C02"], "quick",
    "for symbolic i != j over all 848 key constants of this draw (3 tables): constant non-zero and constants[i] != constants[j]",
    ["ZOBRIST_PIECES_TABLE", "ZOBRIST_CASTLING_RIGHTS_TABLE", "ZOBRIST_EN_PASSANT_TABLE (build-script output of this Kani build)"],
    "symbolic pair of indices", unwind=4, est_s=90)
add("h2_toggles_exact", ["C05", "C02"], "quick",
    "each real toggle XORs exactly table[piece][square][colour] / table[rights] / table[square]; twice = identity; empty ep = no-op",
    ["PositionInfo::update_zobrist_hash_toggle_piece", "..._en_passant_target", "..._castling_rights"],
    "symbolic hash, square, piece, colour, rights", unwind=4, est_s=20)
add("h2_piece_toggle_injective", ["C05", "C02"], "quick",
    "two (piece, colour, square) features toggle the same constant iff they are the same feature (this draw)",
    ["PositionInfo::update_zobrist_hash_toggle_piece"], "symbolic pair of features", unwind=4, est_s=30)
for m, d in [("put", "put toggles exactly the new piece's key iff it succeeds"),
             ("remove", "remove toggles exactly the removed piece's key"),
             ("push_ep", "push_en_passant_target: previous target's key out, new target's key in"),
             ("pop_ep", "pop_en_passant_target: popped target's key out, uncovered target's key in"),
             ("lose_rights", "lose_castle_rights: old rights-set key out, new in; new = old & !lost"),
             ("pop_rights", "pop_castle_rights: popped rights-set key out, uncovered in"),
             ("preserve_rights", "preserve_castle_rights leaves the key alone")]:
    add(f"h3_{m}", ["C05", "C02"], "quick", "key delta of one mutator, real tables: " + d,
        ["Board::" + {"put": "put", "remove": "remove", "push_ep": "push_en_passant_target", "pop_ep": "pop_en_passant_target",
                      "lose_rights": "lose_castle_rights", "pop_rights": "pop_castle_rights", "preserve_rights": "preserve_castle_rights"}[m],
         "PositionInfo toggles (real)", "MoveInfo stack ops"], H_ASSUME, est_s=15)
add("hsetup_any_mutator", ["C05", "C02"], "quick",
    "any one of the 7 board mutators (set-up API included) toggles exactly the features that changed (ghost log, every draw)",
    ["Board::put/remove/push_en_passant_target/pop_en_passant_target/lose_castle_rights/pop_castle_rights/preserve_castle_rights"],
    H_ASSUME.replace("; real Zobrist tables of this build's draw", ""),
    stubs=["the three toggles -> ghost recorders"], unwind=30, est_s=30)
add("c02_sep_single_feature", ["C02", "C05"], "quick",
    "a single-feature edit through the real mutators (piece appears / disappears, different ep target incl. none, rights lost) always changes the key (this draw)",
    ["Board::put", "Board::remove", "Board::push_en_passant_target", "Board::lose_castle_rights"], H_ASSUME, est_s=30)
add("c02_sep_replace_piece", ["C02", "C05"], "quick",
    "replacing the piece on a square by a different (kind, colour) changes the key (this draw)",
    ["Board::put", "Board::remove"], H_ASSUME, est_s=30)


def select(prop, tier):
    out = []
    for h in H:
        if prop in h["props"] and (tier == "thorough" or h["tier"] == "quick"):
            out.append(h)
    return out


TECH = "bounded model checking of the real code: Kani harnesses over symbolic inputs -> CBMC symbolic execution -> CaDiCaL SAT verdict; counterexamples replayed natively"

PROPS = {
    "C02": dict(
        title="Move and attack queries do not depend on what the generator was asked before", jobs=16,
        technique=TECH + "; reduction: cache key = (position key, colour), so history-independence <=> key is a function of (placement, rights, ep) and separates neighbouring positions",
        level_text="Bounded model checking by reduction. Both generator caches are keyed by (position key, colour) and store a value that depends only on (placement, rights, ep, colour); the solver shows, on fully symbolic boards, that every board mutator and every move kind (apply and undo) toggles exactly the key constants of the features it changes -- for every draw of the tables (ghost-log harnesses) and on this build's real tables (per-mutator lemmas) -- and that single-feature edits always change the key. Thorough adds two symbolic 3-ply histories from the start position.",
        level_note="Assumes: RepInv on the symbolic pre-state (C12 proves it inductive); genuine 64-bit collisions between non-neighbouring positions, the LRU's eviction policy and capacity are outside the claim; the three-line cache wrappers generate_moves/get_attack_targets are read, not executed (hashbrown/LRU with symbolic keys does not terminate in CBMC, measured). Trusted: Kani/CBMC/CaDiCaL, the reference rules in harness/files/src/verif_ref.rs.",
    ),
    "C03": dict(
        title="Making a legal move yields the successor position the rules prescribe", jobs=16,
        technique=TECH + "; one step of the board state machine from an arbitrary invariant-satisfying state, differential against an independent reference successor function",
        level_text="Bounded model checking of one step: for a fully symbolic board under the representation invariant and a symbolic rules-shaped move of each kind x colour, the solver shows apply() returns Ok and the 12 bitboards, en-passant target, castling rights and turn equal an independent reference successor; covers all ~2^700 pre-states per query rather than sampled positions.",
        level_note="Assumes RepInv on the pre-state (proved inductive under C12) and Legalish moves (superset of legal moves: own-king safety not required). Bounds: unwind 8 (all loops in this code are <=7 iterations; unwinding assertions on). Trusted: Kani/CBMC/CaDiCaL, the reference rules.",
    ),
    "C04": dict(
        title="Undo restores the previous state exactly, to any nesting depth", jobs=16,
        technique=TECH + "; inductive step in the stack depth: stacks modelled as [symbolic prefix, top]",
        level_text="Bounded model checking of apply;undo per move kind x colour on a fully symbolic board: every raw field (12 bitboards, occupancy summaries, ep/rights/half-move stacks incl. depths and untouched prefixes, move counter, turn, repetition bookkeeping) is restored; the key is shown restored for every draw of the tables via the toggle-parity (ghost log) harnesses. Any nesting depth follows by induction on the stack depth, because the step is proved for an arbitrary prefix.",
        level_note="Assumes RepInv + Legalish as in C03; the search/annotation callers are covered only through the moves they apply and undo (C01.filter / C06.effect), not by executing the search. Trusted: Kani/CBMC/CaDiCaL, reference rules.",
    ),
    "C05": dict(
        title="The position key is a pure function of the position, independent of history", jobs=16,
        technique=TECH + "; invariant 'key = XOR of the constants of the position's features' shown preserved by every mutator and move (per-mutator lemmas on the real tables + toggle-parity ghost log for every draw)",
        level_text="Bounded model checking of the key invariant: H0 (fresh board), H1 (848 constants of this draw non-zero, pairwise distinct), H2 (each toggle XORs exactly its feature's constant), H3 (each of the 7 board mutators changes the key by exactly the constants of the features it changes, real tables, fully symbolic board), Hmove (apply and apply;undo of every move kind toggle exactly the changed features -- parity argument valid for every draw), separation of neighbouring positions. By induction over mutator calls the key is a function of (placement, rights, ep).",
        level_note="Side condition checked syntactically on the tree: the key field is written only inside the three toggle functions, piece sets only inside put/remove. H1 is per draw by nature (each check run sees a fresh draw, the build script runs inside the Kani build). Trusted: Kani/CBMC/CaDiCaL.",
    ),
    "C12": dict(
        title="Board representation invariants hold in every reachable state", jobs=16,
        technique=TECH + "; inductive invariant: RepInv(pre) and rules-shaped move => RepInv(post), plus base cases",
        level_text="Inductive invariant checked by bounded model checking: base cases (starting position, empty board, put/remove) and, per move kind x colour on a fully symbolic board, RepInv(pre) and Legalish(move) => RepInv(post) with occupancy summaries agreeing with per-square contents and rights only shrinking; Legalish includes king-exposing moves, so the transient states inside legality filtering, annotation and search are covered.",
        level_note="Undo returns to the pre-state (C04). Bounds: unwind 8 / 70 for the base case. Trusted: Kani/CBMC/CaDiCaL, the invariant's statement in verif_ref.rs::rep_inv.",
    ),
    "C16": dict(
        title="Move counters are faithful; move-count draw follows the fifty-move rule", jobs=16,
        technique=TECH + "; per-step counter lemmas with symbolic counters, Kani's arithmetic-overflow checks as the 'never wraps or aborts' oracle",
        level_text="Bounded model checking of the counters across one move of every kind x colour with symbolic counter values: half-move clock resets exactly on captures and pawn moves and otherwise advances by one, the move counter advances by one and undo restores both, with no arithmetic overflow for any move-counter value up to 100000 plies; game_ending reports the move-count draw exactly at clock >= 100.",
        level_note="Assumes half-move clock <= 200 on the pre-state (a legal game ends long before; the u8 clock itself is outside the property). Trusted: Kani/CBMC/CaDiCaL, reference rules.",
    ),
}
