"""Contracts of the stand-ins, validated against the real functions they replace.

`create_chess_move_from_uci` reads squares through `square_string_to_bitboard`, which compiles and runs a
regular expression: CBMC cannot execute the regex crate (measured: no termination), and the MIR executor
treats it as an opaque call. The classifier harnesses (c19_cls_*) therefore replace it by the arithmetic
stand-in  bit((s[1] - '1') * 8 + (s[0] - 'a')).  That stand-in is part of the claim; this stage validates it
against the real function on the stand-in's ENTIRE domain in those harnesses -- the 64 two-character
lower-case square names, which is every text `to_uci` can emit for a square (c19_sq_*) -- by running the real
function natively in the scratch copy. This is an exhaustive differential run over a 64-element domain, not a
solver query; it is reported as such (engine "native").
A mismatch is a violation of C19's read-back clause (a rendered square is read back as another square)."""
import os, re, subprocess, time

TEST = '''
#[cfg(test)]
mod verif_stub_contract {
    use super::*;
    #[test]
    fn text_to_square_inverts_the_square_names() {
        for i in 0..64u32 {
            let name = format!("{}{}", (b'a' + (i % 8) as u8) as char, (b'1' + (i / 8) as u8) as char);
            let got = std::panic::catch_unwind(|| square_string_to_bitboard(&name));
            match got {
                Ok(b) => assert!(b == Bitboard(1u64 << i), "square text {:?} is read back as bit {} instead of bit {}", name, b.0.trailing_zeros(), i),
                Err(_) => panic!("square text {:?} is rejected", name),
            }
        }
    }
}
'''
FILE = "common/src/bitboard/square.rs"


def run(prop, src, scratch, env, logs):
    """returns (records, violations[(record, test_text, message)], inconclusive[(name, why)])"""
    if prop != "C19":
        return [], [], []
    t0 = time.time()
    rec = dict(harness="native::text_to_square_contract", kind="obligation",
               engine="native exhaustive differential run (64 inputs): validates the stand-in used by c19_cls_* against the real function",
               claim="square_string_to_bitboard(name(sq)) == bit(sq) for all 64 lower-case square names (the stand-in's whole domain in the classifier harnesses)",
               functions_encoded=["common::bitboard::square::square_string_to_bitboard (executed natively, regex included)"],
               assumptions="none; upper-case input, which the function also accepts, is never produced by to_uci and is outside the claim")
    with open(os.path.join(src, FILE), "a") as f:
        f.write(TEST)
    lg = os.path.join(logs, "stub-contract-text_to_square.log")
    tdir = os.path.join(scratch, "native-target")
    try:
        with open(lg, "w") as lf:
            subprocess.run(["cargo", "test", "--offline", "-p", "common", "--lib", "--target-dir", tdir, "verif_stub_contract"],
                           cwd=src, env=env, stdout=lf, stderr=subprocess.STDOUT, timeout=1800)
    except subprocess.TimeoutExpired:
        rec.update(verdict="error", outcome="inconclusive: native run timed out", seconds=round(time.time() - t0, 1))
        return [rec], [], [(rec["harness"], "native run timed out")]
    t = open(lg, errors="replace").read()
    rec["seconds"] = round(time.time() - t0, 1)
    if re.search(r"test result: ok\. 1 passed", t):
        rec.update(verdict="successful", outcome="holds on all 64 inputs")
        return [rec], [], []
    if "test result: FAILED" in t:
        msg = (re.findall(r"square text [^\n]*", t) or re.findall(r"panicked at [^\n]*\n[^\n]*", t) or [""])[0][:300]
        rec.update(verdict="failed", outcome="VIOLATION (native run): " + msg)
        return [rec], [(rec, "// append to " + FILE + " and run: cargo test -p common --lib verif_stub_contract\n" + TEST, msg)], []
    rec.update(verdict="error", outcome="inconclusive: the native test did not build or run (see " + lg + ")")
    return [rec], [], [(rec["harness"], "the native test did not build or run")]
