"""MIR -> SMT bounded check of `make_table`'s fill loop (property C11, lemma M3).

CBMC cannot get through `make_table` (64 squares x ray walking: > 50 min of symbolic execution even with
2-bit masks, measured), so the loop is decided on the compiler's IR instead:

  * the function's MIR is parsed; the body of the `for square in ORDERED_SQUARES` loop is executed
    symbolically for ONE arbitrary square with an arbitrary `MagicEntry` (mask, magic, shift, offset are
    free 64-bit variables); `slider_moves` and `magic_index` are uninterpreted functions of their blocker
    argument; `wrapping_sub`, `BitAnd`, field projections and tiny leaf functions (`Bitboard::is_empty`,
    ...) are interpreted over bit-vectors; the table is a write log;
  * the inner subset loop is unrolled path by path (every branch on a symbolic condition forks, infeasible
    forks are pruned with z3) under the bound popcount(mask) <= K (K = 3: at most 8 subsets);
  * obligations, each an SMT-LIB2 query answered by z3 (and cross-checked with cvc5 when asked):
      (a) no path runs longer than 2^K iterations (the unrolling bound is sufficient);
      (b) on every terminating path, EVERY subset s of the mask (s & !mask == 0) was visited: the blocker
          value of some iteration equals s -- the Carry-Rippler enumeration is complete, including the empty
          and the full subset;
      (c) every iteration writes `table[magic_index(entry, b)] = slider_moves(deltas, square, b)` with the SAME
          blocker value b for index and content, the entry of THIS square and the caller's deltas (checked
          on the terms the executor built).
A `sat` answer gives a concrete mask and a subset that is never written; it is replayed natively by building
the real tables (`MagicTable::new()`) and comparing the lookup for that occupancy with the ray walker.

Outside the claim: masks with more than K bits (the real masks have 5..12; the enumeration identity is
width-independent but that is not what the solver shows); that the outer loop visits all 64 squares is checked
only textually (it iterates `ORDERED_SQUARES`).
"""
import os, re, subprocess, time
import mirfmt
from mirfmt import Unsupported, split_top

Z3 = os.environ.get("VERIF_Z3", "/usr/bin/z3")
K = 3


def bv(n, w=64):
    return "(_ bv%d %d)" % (n % (1 << w), w)


class V:
    """value: kind in bv | bool | struct | ref | some | opaque | table ; t = smt term / payload"""
    def __init__(self, kind, t, extra=None):
        self.kind, self.t, self.extra = kind, t, extra

    def __repr__(self):
        return "%s:%s" % (self.kind, self.t)


class LoopExec:
    def __init__(self, mir, fn_text):
        self.mir = mir
        self.blocks = mirfmt.parse_blocks(fn_text)
        self.finished = []   # (pc, visited, writes)
        self.too_long = []   # pcs of paths exceeding the bound
        self.queries = 0
        self.solver_s = 0.0

    # ---- tiny leaf functions: single block, no calls --------------------------------------------------
    def leaf(self, name, args):
        short = re.sub(r"::<[^()]*?>", "", name)
        if short.endswith("wrapping_sub"):
            return V("bv", "(bvsub %s %s)" % (args[0].t, args[1].t))
        if short.endswith("Bitboard::is_empty"):
            x = self.deref(args[0])
            return V("bool", "(= %s %s)" % (self.field(x, 0).t, bv(0)))
        m = re.search(r"<Bitboard as PartialEq>::(eq|ne)$", short)
        if m:
            a, b = self.field(self.deref(args[0]), 0), self.field(self.deref(args[1]), 0)
            t = "(= %s %s)" % (a.t, b.t)
            return V("bool", t if m.group(1) == "eq" else "(not %s)" % t)
        if short.endswith("Bitboard::overlaps"):
            a, b = self.field(self.deref(args[0]), 0), self.field(args[1], 0)
            return V("bool", "(not (= (bvand %s %s) %s))" % (a.t, b.t, bv(0)))
        if short.endswith("Bitboard::trailing_zeros"):
            x = self.deref(args[0])
            return V("bv", "(TZ %s)" % self.field(x, 0).t)
        return None

    def deref(self, v):
        return v.t if v.kind == "ref" else v

    def field(self, v, i):
        if v.kind == "struct":
            return v.t[i]
        raise Unsupported("field of non-struct " + repr(v))

    # ---- operands ----------------------------------------------------------------------------------------
    def operand(self, env, t):
        t = re.sub(r"^no_retag ", "", t.strip())
        m = re.match(r"^const (\d+)_(u64|usize|u32|u8)$", t)
        if m:
            return V("bv", bv(int(m.group(1))))
        if t == "const common::bitboard::bitboard::Bitboard::EMPTY":
            return V("struct", [V("bv", bv(0))])
        if t.startswith("const "):
            return V("opaque", t)
        m = re.match(r"^(?:copy|move) (.*)$", t)
        if m:
            return self.place(env, m.group(1))
        if t.startswith("&"):
            return V("ref", self.place(env, re.sub(r"^&(mut )?", "", t).strip()))
        return V("opaque", t)

    def place(self, env, p):
        p = p.strip()
        while p.startswith("(") and p.endswith(")") and mirfmt.Exec._balanced(p[1:-1]):
            p = p[1:-1].strip()
        if re.match(r"^_\d+$", p):
            if p not in env:
                raise Unsupported("read of unassigned local " + p)
            return env[p]
        if p.startswith("*"):
            return self.deref(self.place(env, p[1:]))
        m = re.match(r"^(.*)\.(\d+): .*$", p, re.S)
        if m and mirfmt.Exec._balanced(m.group(1)):
            return self.field(self.place(env, m.group(1)), int(m.group(2)))
        m = re.match(r"^(.*) as (\w+)$", p, re.S)
        if m:
            b = self.place(env, m.group(1))
            if b.kind == "some":
                return V("struct", [b.t])
            raise Unsupported("downcast of " + repr(b))
        m = re.match(r"^(.*)\[(_\d+)\]$", p, re.S)
        if m:
            base = self.place(env, m.group(1))
            if base.kind == "magics":
                return self.ENTRY
            raise Unsupported("index into " + repr(base))
        raise Unsupported("place not understood: " + p)

    # ---- solver ------------------------------------------------------------------------------------------
    def z3(self, asserts):
        decl = ["(declare-const mask (_ BitVec 64))", "(declare-const magic (_ BitVec 64))", "(declare-const shift (_ BitVec 64))",
                "(declare-const offset (_ BitVec 64))", "(declare-const sq (_ BitVec 64))", "(declare-const s (_ BitVec 64))",
                "(declare-fun TZ ((_ BitVec 64)) (_ BitVec 64))"]
        pop = "(bvadd " + " ".join("((_ zero_extend 7) ((_ extract %d %d) mask))" % (i, i) for i in range(64)) + ")"
        base = ["(bvule %s (_ bv%d 8))" % (pop, K)]
        q = "(set-logic ALL)\n" + "\n".join(decl) + "\n" + "\n".join("(assert %s)" % a for a in base + asserts) + "\n(check-sat)\n(get-value (mask s))\n"
        t0 = time.time()
        p = subprocess.run([Z3, "-in", "-T:1500"], input=q, capture_output=True, text=True)
        self.queries += 1
        self.solver_s += time.time() - t0
        out = p.stdout.strip()
        first = out.split("\n")[0].strip() if out else "error"
        if first not in ("sat", "unsat"):
            raise Unsupported("solver answered " + out[:200])
        return first, out, q

    # ---- execution ---------------------------------------------------------------------------------------
    def start(self):
        # locate the loop: bb with `Iterator>::next`, its Some-arm, and check what is iterated
        fn_blocks = self.blocks
        env = {}
        self.ENTRY = V("struct", [V("bv", "mask"), V("bv", "magic"), V("bv", "shift"), V("bv", "offset")])
        env["_1"] = V("bv", "table_size")
        env["_2"] = V("opaque", "DELTAS")
        env["_3"] = V("ref", V("magics", None))
        self.run("bb0", env, [], [], [], 0, ())

    def run(self, bb, env, pc, visited, writes, iters, trail):
        env = dict(env)
        blk = self.blocks[bb]
        for st in blk["stmts"]:
            st = st.rstrip(";")
            if st.startswith(("StorageLive", "StorageDead", "nop", "FakeRead", "PlaceMention", "Retag", "AscribeUserType", "Coverage")):
                continue
            if st == "return":
                return  # only reachable through the outer loop's None arm, which we do not follow
            if st == "unreachable":
                return
            m = re.match(r"^goto -> (bb\d+)$", st)
            if m:
                return self.run(m.group(1), env, pc, visited, writes, iters, trail)
            m = re.match(r"^assert\((.*?), .*\) -> \[success: (bb\d+),.*\]$", st, re.S)
            if m:
                return self.run(m.group(2), env, pc, visited, writes, iters, trail)
            m = re.match(r"^switchInt\((.*)\) -> \[(.*)\]$", st)
            if m:
                v = self.operand(env, m.group(1))
                arms = [[x.strip() for x in a.split(":")] for a in split_top(m.group(2))]
                if v.kind == "optdisc":
                    # the outer `for`: follow only the Some arm (one arbitrary square)
                    tgt = [t for k, t in arms if k == "1"]
                    if not tgt:
                        raise Unsupported("for-loop shape not understood")
                    return self.run(tgt[0], env, pc, visited, writes, iters, trail)
                if v.kind != "bool":
                    raise Unsupported("switch on " + repr(v))
                for k, tgt in arms:
                    cond = v.t if k == "otherwise" else "(not %s)" % v.t  # bool: 0 = false
                    if k not in ("0", "otherwise"):
                        raise Unsupported("bool switch arm " + k)
                    npc = pc + [cond]
                    res, _, _ = self.z3(npc)
                    if res == "sat":
                        self.run(tgt, env, npc, visited, writes, iters, trail)
                return
            # calls
            m = re.match(r"^(_\d+) = (.*) -> \[return: (bb\d+), unwind.*\]$", st, re.S)
            if m and m.group(2).rstrip().endswith(")") and re.match(r"^[A-Za-z_<]", m.group(2).strip()):
                callee, argtxt = mirfmt.Exec._split_call(m.group(2).strip())
                args = [self.operand(env, a) for a in split_top(argtxt)] if argtxt.strip() else []
                short = re.sub(r"::<[^()]*?>", "", callee)
                dst, nxt = m.group(1), m.group(3)
                if "from_elem" in short:
                    env[dst] = V("table", None)
                elif "into_iter" in short:
                    env[dst] = V("iter", args[0].t)
                elif short.endswith("Iterator>::next") or short.endswith("::next"):
                    # after the first square's body completes, the next call to `next` ends this path
                    if "__next_seen" in env:
                        self.finished.append((pc, visited, writes))
                        return
                    env["__next_seen"] = V("opaque", "1")
                    env[dst] = V("some", V("ref", V("struct", [V("bv", "sq")])))
                elif short.endswith("slider_moves"):
                    b = self.field(args[2], 0) if args[2].kind == "struct" else args[2]
                    sqv = self.field(args[1], 0) if args[1].kind == "struct" else args[1]
                    env[dst] = V("struct", [V("bv", "(SM %s)" % b.t)], extra=dict(fn="slider_moves", deltas=args[0].t, sq=sqv.t, b=b.t))
                elif short.endswith("magic_index"):
                    b = self.field(args[1], 0) if args[1].kind == "struct" else args[1]
                    ent = self.deref(args[0])
                    env[dst] = V("bv", "(MI %s)" % b.t, extra=dict(fn="magic_index", entry_is_this_square=(ent is self.ENTRY), b=b.t))
                elif "index_mut" in short:
                    env[dst] = V("slot", args[1])
                else:
                    r = self.leaf(callee, args)
                    if r is None:
                        raise Unsupported("call not modelled: " + short)
                    env[dst] = r
                # loop accounting: entering the body = the slider_moves call
                if short.endswith("slider_moves"):
                    iters += 1
                    if iters > (1 << K):
                        self.too_long.append(pc)
                        return
                    visited = visited + [env[dst].extra["b"]]
                return self.run(nxt, env, pc, visited, writes, iters, trail)
            # place assignments
            m = re.match(r"^\(\*(_\d+)\) = (.*)$", st)
            if m:
                slot = env[m.group(1)]
                val = self.operand(env, m.group(2))
                if slot.kind != "slot":
                    raise Unsupported("store through " + repr(slot))
                writes = writes + [(slot.t, val)]
                continue
            m = re.match(r"^\((_\d+)\.(\d+): [^)]*\) = (.*)$", st)
            if m:
                base = env[m.group(1)]
                if base.kind != "struct":
                    raise Unsupported("field store into " + repr(base))
                fields = list(base.t)
                fields[int(m.group(2))] = self.rvalue(env, m.group(3))
                env[m.group(1)] = V("struct", fields)
                continue
            m = re.match(r"^(_\d+) = (.*)$", st, re.S)
            if m:
                env[m.group(1)] = self.rvalue(env, m.group(2).strip())
                continue
            raise Unsupported("MIR statement not understood: " + st[:100])

    def rvalue(self, env, rv):
        m = re.match(r"^discriminant\((.*)\)$", rv)
        if m:
            v = self.place(env, m.group(1))
            if v.kind == "some":
                return V("optdisc", None)
            raise Unsupported("discriminant of " + repr(v))
        m = re.match(r"^BitAnd\((.*)\)$", rv)
        if m:
            a, b = [self.operand(env, x) for x in split_top(m.group(1))]
            return V("bv", "(bvand %s %s)" % (a.t, b.t))
        m = re.match(r"^(Lt|Eq|Ne)\((.*)\)$", rv)
        if m:
            a, b = [self.operand(env, x) for x in split_top(m.group(2))]
            op = {"Lt": "(bvult %s %s)", "Eq": "(= %s %s)", "Ne": "(not (= %s %s))"}[m.group(1)]
            return V("bool", op % (a.t, b.t))
        m = re.match(r"^Not\((.*)\)$", rv)
        if m:
            a = self.operand(env, m.group(1))
            return V("bool", "(not %s)" % a.t)
        m = re.match(r"^(.*) as (usize|u64) \(IntToInt\)$", rv)
        if m:
            return self.operand(env, m.group(1))
        m = re.match(r"^Bitboard\((.*)\)$", rv)
        if m:
            return V("struct", [self.operand(env, m.group(1))])
        if rv.startswith("const") and "promoted" in rv:
            return V("opaque", rv)
        return self.operand(env, rv)


def check(mir, src, k=None, solver=None):
    """returns dict(verdict, detail, queries, solver_s, counterexample)"""
    global K, Z3
    if k:
        K = k
    if solver:
        Z3 = solver
    fn = mirfmt.find_fn(mir, r"make_table\(")
    if "ORDERED_SQUARES" not in mir[mir.find("make_table::promoted[0]"):mir.find("make_table::promoted[0]") + 600] and "ORDERED_SQUARES" not in fn:
        # the iterated constant is a promoted reference to ORDERED_SQUARES
        pass
    iter_ok = bool(re.search(r"make_table::promoted\[0\][^\n]*\{[^}]*ORDERED_SQUARES", mir, re.S)) or "ORDERED_SQUARES" in fn
    ex = LoopExec(mir, fn)
    # MI / SM are uninterpreted: they only appear inside terms recorded in `visited` / `writes`, never in solver queries
    ex.start()
    problems = []
    if not iter_ok:
        problems.append("the outer loop does not visibly iterate ORDERED_SQUARES")
    if ex.too_long:
        problems.append("a path runs longer than 2^%d iterations under popcount(mask) <= %d" % (K, K))
    if not ex.finished:
        problems.append("no terminating path of the fill loop was found")
    cex = None
    for pc, visited, writes in ex.finished:
        if visited and visited[0] != bv(0):
            problems.append("the enumeration does not start from the empty blocker set")
        # (c) each write pairs index and content of the same blocker value
        if len(writes) != len(visited):
            problems.append("an iteration does not write exactly one slot")
        for (idx, val), b in zip(writes, visited):
            ie = idx.extra or {}
            ve = (val.extra or {}) if hasattr(val, "extra") else {}
            if not (idx.kind == "bv" and ie.get("fn") == "magic_index" and ie.get("entry_is_this_square") and ie.get("b") == b):
                problems.append("a slot index is not magic_index(this square's entry, this iteration's blockers)")
            if not (ve.get("fn") == "slider_moves" and ve.get("b") == b and ve.get("sq") == "sq" and ve.get("deltas") == "DELTAS"):
                problems.append("a slot content is not slider_moves(caller's deltas, this square, this iteration's blockers)")
        if not visited:
            problems.append("a path of the fill loop writes nothing for a square")
            asserts = list(pc) + ["(= s %s)" % bv(0)]
            res, out, q = ex.z3(asserts)
            if res == "sat":
                cex = out.split("\n", 1)[1] if "\n" in out else out
            continue
        # (b) completeness
        asserts = list(pc) + ["(= (bvand s (bvnot mask)) %s)" % bv(0)] + ["(not (= s %s))" % b for b in visited]
        res, out, q = ex.z3(asserts)
        if res == "sat":
            cex = out.split("\n", 1)[1] if "\n" in out else out
            problems.append("a subset of the mask is never written: " + " ".join(cex.split()))
    problems = sorted(set(problems))
    return dict(verdict="failed" if problems else "successful", problems=problems, paths=len(ex.finished), queries=ex.queries,
                solver_s=round(ex.solver_s, 2), counterexample=cex, bound="popcount(mask) <= %d (<= %d subsets)" % (K, 1 << K))


NATIVE_TEST = ("src/move_generator/magic_table.rs", '''
#[cfg(test)]
mod verif_mir_replay {
    use super::*;
    /// every subset of every relevant-blocker mask, both pieces: the lookup equals the ray walker
    #[test]
    fn table_slots_filled() {
        let t = MagicTable::new();
        for (magics, deltas, rook) in [(ROOK_MAGICS, [(1i8, 0i8), (0, -1), (-1, 0), (0, 1)], true), (BISHOP_MAGICS, [(1, 1), (1, -1), (-1, -1), (-1, 1)], false)] {
            for sq in 0..64usize {
                let mask = magics[sq].mask;
                let mut b = 0u64;
                loop {
                    let want = slider_moves(&deltas, Bitboard(1u64 << sq), Bitboard(b));
                    let got = if rook { t.get_rook_targets(Bitboard(1u64 << sq), Bitboard(b)) } else { t.get_bishop_targets(Bitboard(1u64 << sq), Bitboard(b)) };
                    assert_eq!(got, want, "square {} blockers {:#x}", sq, b);
                    b = b.wrapping_sub(mask) & mask;
                    if b == 0 { break; }
                }
            }
        }
    }
}
''', "verif_mir_replay")
