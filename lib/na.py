"""Properties this framework does not claim, each with the reason (DESIGN.md §6)."""
NOT_APPLICABLE = {
    "C07": "search legality / board untouched: alpha_beta_search runs rayon par_iter over Arc<RwLock> contexts and builds a 10^8-slot LRU plus 10^5-entry magic tables per root move; Kani has no thread model and CBMC cannot unwind the constructors; not a bounded symbolic-input query (DESIGN §6)",
    "C08": "search value = fixed-depth minimax: recursive game-tree search through the same machinery and a shared cache; equivalence to unpruned minimax is not a bounded single-step solver query (DESIGN §6)",
    "C09": "schedule independence: quantifies over thread interleavings; Kani/CBMC do not model Rust threads and no solver-based engine for Rust concurrency is installed (DESIGN §6)",
    "C10": "perft counts: whole-program counting over 10^4..10^8 concrete nodes under rayon; enumeration, not a symbolic-input question; its root cause on this tree (stale en-passant key) is decided under C02/C05 (DESIGN §6)",
    "C14": "typed input: path runs through stdin, two regex compilations per line, Game (book trie via regex, LRU, magic tables) and heap strings; regex/format!/hashbrown are beyond CBMC's reach here (measured, DESIGN §2) (DESIGN §6)",
    "C15": "engine move / book legality: fixed concrete data (74 book lines) chosen with thread_rng, then the search of C07; replaying concrete lines is enumeration, not a solver question (DESIGN §6)",
    "C17": "repetition accounting: the counter is a hashbrown map keyed by the 64-bit key; 4 map operations with symbolic keys did not leave symex in 15 min (measured); the end-to-end clause needs Game (regex-built book, LRU 10^8) (DESIGN §6)",
}
