"""H1 for the key tables the user's own builds contain: every zobrist_table.rs found in an OUT_DIR under <repo>/target.
(The Kani build of each check run generates a fresh draw, which h1_constants_distinct decides; this obligation decides the
draws that the binaries built in /repo/target actually use.) The 848 constants of a file are asserted pairwise distinct and
non-zero as one SMT-LIB2 query: the negation must be unsat. Answered by z3 and cross-checked with cvc5."""
import glob, os, re, subprocess, time


def tables(repo):
    return sorted(glob.glob(os.path.join(repo, "target", "*", "build", "chess-*", "out", "zobrist_table.rs")))


def parse(path):
    s = open(path).read()
    out = {}
    for name in ("ZOBRIST_PIECES_TABLE", "ZOBRIST_CASTLING_RIGHTS_TABLE", "ZOBRIST_EN_PASSANT_TABLE"):
        m = re.search(r"pub const " + name + r"[^=]*=\s*\[(.*?)\];\s*(?:\n|$)", s, re.S)
        if not m:
            return None
        body = re.sub(r"//[^\n]*", "", m.group(1))
        out[name] = [int(x) for x in re.findall(r"\d+", body)]
    if len(out["ZOBRIST_PIECES_TABLE"]) != 768 or len(out["ZOBRIST_CASTLING_RIGHTS_TABLE"]) != 16 or len(out["ZOBRIST_EN_PASSANT_TABLE"]) != 64:
        return None
    return out["ZOBRIST_PIECES_TABLE"] + out["ZOBRIST_CASTLING_RIGHTS_TABLE"] + out["ZOBRIST_EN_PASSANT_TABLE"]


def query(vals):
    lits = ["(_ bv%d 64)" % v for v in vals]
    decl = "\n".join("(define-fun k%d () (_ BitVec 64) %s)" % (i, l) for i, l in enumerate(lits))
    ks = " ".join("k%d" % i for i in range(len(vals)))
    nz = " ".join("(not (= k%d (_ bv0 64)))" % i for i in range(len(vals)))
    return "(set-logic ALL)\n%s\n(assert (not (and (distinct %s) %s)))\n(check-sat)\n" % (decl, ks, nz)


def run(repo):
    recs = []
    for path in tables(repo):
        vals = parse(path)
        rec = dict(harness="z3::h1_outdir_table", kind="obligation", engine="z3 4.8.12 + cvc5 1.0 on the constants of a generated file",
                   claim="the 848 key constants in " + path.replace(repo, "<repo>") + " are non-zero and pairwise distinct",
                   functions_encoded=["build-script output zobrist_table.rs (data)"], assumptions="none")
        if vals is None:
            rec.update(verdict="unsupported", outcome="inconclusive: table file not understood")
            recs.append(rec)
            continue
        q = query(vals)
        t0 = time.time()
        a = subprocess.run(["/usr/bin/z3", "-in", "-T:120"], input=q, capture_output=True, text=True).stdout.strip()
        b = subprocess.run(["cvc5", "--lang", "smt2", "--tlimit=120000"], input=q, capture_output=True, text=True).stdout.strip()
        rec["solver_s"] = round(time.time() - t0, 2)
        rec["solver_queries"] = 2
        rec["answers"] = dict(z3=a[:40], cvc5=b[:40])
        if "(error" in a or "(error" in b or a.split("\n")[0] != b.split("\n")[0]:
            rec.update(verdict="error", outcome="inconclusive: solvers disagree or report an error")
        elif a.split("\n")[0] == "unsat":
            rec.update(verdict="successful", outcome="discharged")
        elif a.split("\n")[0] == "sat":
            dup = [v for v in set(vals) if vals.count(v) > 1]
            rec.update(verdict="failed", outcome="counterexample: " + ("a zero constant" if 0 in vals else "duplicate constant %d" % dup[0] if dup else "sat"),
                       failed_checks=[rec["claim"]])
        else:
            rec.update(verdict="error", outcome="inconclusive: " + a[:60])
        recs.append(rec)
    return recs
