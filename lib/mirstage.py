"""MIR/z3 stage of the C13 and C19 checks (see mirfmt.py)."""
import os, re, shutil, subprocess, time
import mirfmt
import mirloop

VERIF = os.path.dirname(os.path.dirname(os.path.abspath(__file__)))
MIR_CACHE = os.path.join(VERIF, ".cache", "mir-target")

FROM = "common::bitboard::square::to_algebraic(ChessMove::from_square(_1))"
TO = "common::bitboard::square::to_algebraic(ChessMove::to_square(_1))"


def _dump(src, scratch, env, logs):
    tdir = os.path.join(scratch, "mir-target")
    if os.path.isdir(MIR_CACHE) and not os.path.isdir(tdir):
        subprocess.run(["cp", "-a", MIR_CACHE, tdir], check=True)
    e = dict(env)
    e.pop("RUSTFLAGS", None)
    return mirfmt.dump_mir(src, tdir, e, os.path.join(logs, "mir-dump.log"))


def uci_obligation(mir, src):
    fn = mirfmt.find_fn(mir, r"::to_uci\(")
    ex = mirfmt.Exec(mirfmt.parse_blocks(fn), mir)
    ex.run()
    kinds = mirfmt.enum_variants(os.path.join(src, "src/chess_move/chess_move.rs"), "ChessMove")
    pieces = mirfmt.enum_variants(os.path.join(src, "src/board/piece.rs"), "Piece")
    promo = kinds.index("PawnPromotion")
    letter = {pieces.index("Queen"): "q", pieces.index("Rook"): "r", pieces.index("Bishop"): "b", pieces.index("Knight"): "n"}
    KIND = "discriminant(_1)"
    PIECE = [t for c, _ in ex.paths for (t, _, _) in c if "promote_to_piece" in t]
    PIECE = PIECE[0] if PIECE else None

    def want(assign):
        k = assign.get(KIND)
        if k == promo:
            p = assign.get(PIECE) if PIECE else None
            if isinstance(p, int) and p in letter:
                return [FROM, TO, ("str", letter[p])]
            return [FROM, TO, "<some promotion letter>"]  # a promotion path that does not branch on the four pieces: never equal
        return [FROM, TO]
    names = {KIND: "move kind " + str(kinds), PIECE: "promotion piece " + str(pieces)}
    recs = mirfmt.check_paths(ex.paths, ex, want, names)
    # completeness: a returning path for each of the four promotion pieces
    have = {a.get(PIECE) for c, _ in ex.paths for a in [dict((t, v if op == "eq" else None) for t, op, v in c)] if a.get(KIND) == promo}
    missing = [pieces[k] for k in letter if k not in have]
    return ex, recs, missing


ROLES = [
    ("piece letter", r"^Piece::to_algebraic_str\("),
    ("disambiguator", r"^get_disambiguating_chars\("),
    ("capture mark", r"^get_capture_char\(_1\)$"),
    ("destination", r"^common::bitboard::square::to_algebraic\(ChessMove::to_square\(_1\)\)$"),
    ("promotion suffix", r"^get_promotion_chars\(_1\)$"),
    ("check suffix", r"^get_check_or_checkmate_char\(_1\)$"),
]
CASTLE_ROLES = [("castle text", r"^algebraic_castle\(_1 as Castle"), ("check suffix", r"^get_check_or_checkmate_char\(_1\)$")]


def san_obligation(mir, src):
    fn = mirfmt.find_fn(mir, r"chess_move_to_algebraic_notation\(")
    ex = mirfmt.Exec(mirfmt.parse_blocks(fn), mir)
    ex.run()
    kinds = mirfmt.enum_variants(os.path.join(src, "src/chess_move/chess_move.rs"), "ChessMove")
    castle = kinds.index("Castle")
    KIND = "discriminant(_1)"
    produced_by_path = {}

    def want_for(val):
        def f(assign):
            k = assign.get(KIND)
            roles = CASTLE_ROLES if k == castle else ROLES
            terms = [ex.show(p) for p in (val[1] if val[0] == "fmt" else [])]
            out = []
            for name, rx in roles:
                hits = [t for t in terms if re.search(rx, t)]
                out.append(hits[0] if len(hits) == 1 else "<missing or duplicated: " + name + ">")
            return out
        return f
    recs = []
    for cond, val in ex.paths:
        recs += mirfmt.check_paths([(cond, val)], ex, want_for(val), {KIND: "move kind " + str(kinds)})
    return ex, recs, []


def promo_obligation(mir, src):
    fn = mirfmt.find_fn(mir, r"get_promotion_chars\(")
    ex = mirfmt.Exec(mirfmt.parse_blocks(fn), mir)
    ex.run()
    kinds = mirfmt.enum_variants(os.path.join(src, "src/chess_move/chess_move.rs"), "ChessMove")
    promo = kinds.index("PawnPromotion")
    KIND = "discriminant(_1)"

    def want(assign):
        if assign.get(KIND) == promo:
            return [("str", "="), "Piece::to_algebraic_str(PawnPromotionChessMove::promote_to_piece(_1 as PawnPromotion.0))"]
        return None
    recs = mirfmt.check_paths(ex.paths, ex, want, {KIND: "move kind " + str(kinds)})
    missing = [] if any(dict((t, v) for t, op, v in c if op == "eq").get(KIND) == promo for c, _ in ex.paths) else ["PawnPromotion"]
    return ex, recs, missing


NATIVE_TESTS = {
    "promo": ("src/chess_move/algebraic_notation.rs", '''
#[cfg(test)]
mod verif_mir_replay {
    use super::*;
    use crate::chess_move::pawn_promotion::PawnPromotionChessMove;
    use common::bitboard::square::*;
    #[test]
    fn promotion_suffix() {
        for (p, s) in [(Piece::Queen, "=Q"), (Piece::Rook, "=R"), (Piece::Bishop, "=B"), (Piece::Knight, "=N")] {
            let m = ChessMove::PawnPromotion(PawnPromotionChessMove::new(C7, C8, None, p));
            assert_eq!(get_promotion_chars(&m), s, "promotion suffix");
        }
    }
}
''', "verif_mir_replay"),
    "m3": mirloop.NATIVE_TEST,
    "uci": ("src/chess_move/chess_move.rs", '''
#[cfg(test)]
mod verif_mir_replay {
    use super::*;
    use common::bitboard::square::*;
    #[test]
    fn to_uci_text() {
        for (p, s) in [(Piece::Queen, "a7a8q"), (Piece::Rook, "a7a8r"), (Piece::Bishop, "a7a8b"), (Piece::Knight, "a7a8n")] {
            let m = ChessMove::PawnPromotion(PawnPromotionChessMove::new(A7, A8, None, p));
            assert_eq!(m.to_uci(), s, "promotion text");
        }
        assert_eq!(ChessMove::Standard(StandardChessMove::new(E2, E4, None)).to_uci(), "e2e4");
        assert_eq!(ChessMove::Castle(CastleChessMove::castle_kingside(crate::board::color::Color::White)).to_uci(), "e1g1");
    }
}
''', "verif_mir_replay"),
    "san": ("src/chess_move/algebraic_notation.rs", '''
#[cfg(test)]
mod verif_mir_replay {
    use super::*;
    #[test]
    fn san_assembly() {
        let mut board = Board::starting_position();
        let mut mg = MoveGenerator::new();
        let labels: Vec<String> = enumerate_candidate_moves_with_algebraic_notation(&mut board, Color::White, &mut mg).into_iter().map(|(_, s)| s).collect();
        for want in ["Nf3", "Nc3", "Na3", "Nh3", "e4", "e3", "a3", "h4"] {
            assert!(labels.iter().any(|l| l == want), "{} missing from {:?}", want, labels);
        }
        assert_eq!(labels.len(), 20);
    }
}
''', "verif_mir_replay"),
}


def native_replay(which, src, scratch, env, logs):
    f, text, filt = NATIVE_TESTS[which]
    with open(os.path.join(src, f), "a") as fh:
        fh.write(text)
    tdir = os.path.join(scratch, "native-target")
    lg = os.path.join(logs, "mir-replay-" + which + ".log")
    with open(lg, "w") as lf:
        subprocess.run(["cargo", "test", "--offline", "--lib", "--target-dir", tdir, filt], cwd=src, env=env, stdout=lf, stderr=subprocess.STDOUT, timeout=3600)
    t = open(lg, errors="replace").read()
    failed = "test result: FAILED" in t
    msg = (re.findall(r"panicked at [^\n]*\n[^\n]*", t) or [""])[0][:300]
    return failed, msg, text


def run(prop, src, scratch, env, logs, tier="quick"):
    """returns (records, violations, inconclusive) ; violation = (record, replay_text)"""
    t0 = time.time()
    records, violations, inconclusive = [], [], []
    try:
        mir = _dump(src, scratch, env, logs)
    except Exception as e:  # noqa
        return [dict(harness="mir::dump", kind="obligation", verdict="error", outcome="inconclusive: " + str(e)[:200])], [], [("mir::dump", str(e)[:200])]
    dump_s = time.time() - t0
    if prop == "C11":
        rec = dict(harness="mir::make_table_fill_loop", kind="obligation", engine="nightly MIR dump -> bounded path unrolling -> z3 (QF_BV)",
                   claim="make_table: for one arbitrary square and an arbitrary MagicEntry with a mask of at most 3 bits (quick) / 4 bits (thorough), the fill loop visits EVERY subset of the mask (incl. empty and full), and each iteration writes table[magic_index(entry, b)] = slider_moves(deltas, square, b) for its blocker set b",
                   functions_encoded=["make_table", "Bitboard::is_empty", "u64::wrapping_sub"],
                   assumptions="slider_moves / magic_index uninterpreted (their contracts: M1, M2); one arbitrary iteration of the outer loop over ORDERED_SQUARES; popcount(mask) <= 3 in the quick tier (<= 8 iterations), <= 4 in the thorough tier (<= 16); longer paths shown infeasible",
                   mir_dump_s=round(dump_s, 1))
        try:
            # quick: masks <= 3 bits (z3 4.8.12, ~12 s); thorough: <= 4 bits (16 subsets; z3 5.1 needs ~10 min)
            r = None
            if tier == "thorough":
                try:
                    r = mirloop.check(mir, src, k=4, solver="z3-new")
                except mirfmt.Unsupported as e:
                    if "timeout" not in str(e):
                        raise
                    rec["note"] = "the 4-bit bound did not finish within the solver budget on this run; the 3-bit bound is what is reported"
            if r is None:
                r = mirloop.check(mir, src, k=3, solver="/usr/bin/z3")
        except Exception as e:  # noqa
            rec.update(verdict="unsupported", outcome="inconclusive: " + str(e)[:300])
            return [rec], [], [(rec["harness"], str(e)[:300])]
        rec.update(paths=r["paths"], solver_queries=r["queries"], solver_s=r["solver_s"], bound=r["bound"])
        if r["verdict"] == "successful":
            rec.update(verdict="successful", outcome="discharged")
            return [rec], [], []
        rec.update(verdict="failed", outcome="counterexample: " + "; ".join(r["problems"])[:700], failed_checks=[rec["claim"]])
        failed, msg, text = native_replay("m3", src, scratch, env, logs)
        rec["replay"] = dict(reproduced=failed, detail=msg)
        if failed:
            return [rec], [(rec, text, msg)], []
        return [rec], [], [(rec["harness"], "solver counterexample did not reproduce in the native test (all table slots compared)")]
    jobs = [("uci", "mir::to_uci_text", uci_obligation, "ChessMove::to_uci returns origin ++ destination (++ q/r/b/n naming the promotion piece, for each of the four pieces); every promotion piece has a returning path")] if prop == "C19" else \
           [("san", "mir::san_assembly", san_obligation, "chess_move_to_algebraic_notation returns piece letter ++ disambiguator ++ capture mark ++ destination ++ promotion suffix ++ check suffix (castle: castle text ++ check suffix), each part taken from the right helper on the right arguments"),
            ("promo", "mir::promotion_suffix", promo_obligation, "get_promotion_chars of a promotion returns '=' ++ the algebraic letter of the promotion piece (letters themselves: c13_piece_letters)")]
    for which, name, fn, claim in jobs:
        rec = dict(harness=name, kind="obligation", engine="nightly MIR dump -> path enumeration -> z3 (QF strings)", claim=claim,
                   functions_encoded={"uci": ["ChessMove::to_uci"], "san": ["chess_move_to_algebraic_notation"], "promo": ["get_promotion_chars"]}[which],
                   assumptions="callee bodies uninterpreted (their contracts: c19_sq_*, c13_dis_*, c13_parts); loop-free MIR; format template bytes 0x00 / 0xC0 / literal only",
                   mir_dump_s=round(dump_s, 1))
        try:
            ex, recs, missing = fn(mir, src)
        except mirfmt.Unsupported as e:
            rec.update(verdict="unsupported", outcome="inconclusive: " + str(e)[:300])
            inconclusive.append((name, str(e)[:300]))
            records.append(rec)
            continue
        rec["paths"] = [{k: v for k, v in r.items() if k != "query"} for r in recs]
        rec["solver_queries"] = sum(1 for r in recs if r["verdict"] in ("sat", "unsat"))
        rec["solver_s"] = round(sum(r.get("solver_s", 0) for r in recs), 3)
        rec["sample_query"] = next((r["query"] for r in recs if "query" in r), None)
        bad = [r for r in recs if r["verdict"] == "sat"]
        err = [r for r in recs if r["verdict"] not in ("sat", "unsat", "no requirement on this path")]
        if missing:
            bad.append(dict(path="promotion to " + ", ".join(missing), produced="(no returning path)", required="origin ++ destination ++ letter", verdict="sat"))
        if err:
            rec.update(verdict="error", outcome="inconclusive: solver error on a path")
            inconclusive.append((name, "solver error: " + str(err[0].get("verdict"))))
        elif bad:
            rec.update(verdict="failed", outcome="counterexample path: " + "; ".join(str(b["path"]) + " produces " + str(b["produced"]) + " but " + str(b["required"]) + " is required" for b in bad)[:800],
                       failed_checks=[claim])
            failed, msg, text = native_replay(which, src, scratch, env, logs)
            rec["replay"] = dict(reproduced=failed, detail=msg)
            if failed:
                violations.append((rec, text, msg))
            else:
                inconclusive.append((name, "solver counterexample path did not reproduce in the native test"))
        else:
            rec.update(verdict="successful", outcome="discharged")
        records.append(rec)
    return records, violations, inconclusive
