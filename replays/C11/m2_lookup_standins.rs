// Replay of a solver counterexample for property C11, harness move_generator::magic_table::kani_verif::m2_lookup_standins
// failed checks: assertion failed: t.stub_rook(Bitboard(rf::bit(sq)), Bitboard(b)).0 == rf::rook_attacks(sq, b)
//   at src/move_generator/magic_table/kani_verif.rs:109 in move_generator::magic_table::kani_verif::m2_lookup_standins
// native replay (cargo kani playback): dev: {'tests_run': 1, 'test_failed': True, 'matched_checks': ['assertion failed: t.stub_rook(Bitboard(rf::bit(sq)), Bitboard(b)).0 == rf::rook_attacks(sq, b)'], 'panic': 'panicked at src/move_generator/magic_table/kani_verif.rs:109:5:\nassertion failed: t.stub_rook(Bitboard(rf::bit(sq)), Bitboard(b)).0 == rf::rook_attacks(sq, b)'}
//   release: {'tests_run': 0, 'test_failed': False, 'matched_checks': [], 'panic': ''}
// To re-run: /verif/bin/replay C11 m2_lookup_standins  -- snapshots /repo, injects the harness, appends the test(s) below to
// src/move_generator/magic_table/kani_verif.rs and runs `cargo kani playback -Z concrete-playback --lib -- kani_concrete_playback_m2_lookup_standins_94893140510809762`
// The byte vectors are the concrete values of the harness's kani::any() calls, in call order.

/// Test generated for harness `move_generator::magic_table::kani_verif::m2_lookup_standins` 
///
/// Check for `assertion`: "assertion failed: t.stub_rook(Bitboard(rf::bit(sq)), Bitboard(b)).0 == rf::rook_attacks(sq, b)"

#[test]
fn kani_concrete_playback_m2_lookup_standins_94893140510809762() {
    let concrete_vals: Vec<Vec<u8>> = vec![
        // 2
        vec![2],
        // 36028797018965004ul
        vec![12, 4, 0, 0, 0, 0, 128, 0],
    ];
    kani::concrete_playback_run(concrete_vals, m2_lookup_standins);
}

