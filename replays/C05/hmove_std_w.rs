// Replay of a solver counterexample for property C05, harness board::kani_verif::hmove_std_w
// failed checks: apply toggles exactly the features that changed
//   at src/board/kani_verif.rs:637 in board::kani_verif::hmove
// native replay: dev: {'test_failed': False, 'matched_checks': [], 'panic': ''}
//                release: {'test_failed': False, 'matched_checks': [], 'panic': ''}
// To re-run: /verif/bin/replay C05 hmove_std_w   (re-creates the scratch copy, injects the harness and this test
// into src/board/kani_verif.rs, then `cargo kani playback -Z concrete-playback -- kani_concrete_playback_hmove_std_w_3791605358258514590`)
// The byte vectors below are the concrete values of the harness's kani::any() calls in order.

#[test]
fn kani_concrete_playback_hmove_std_w_3791605358258514590() {
    let concrete_vals: Vec<Vec<u8>> = vec![
        // 0ul
        vec![0, 0, 0, 0, 0, 0, 0, 0],
        // 2147483656ul
        vec![8, 0, 0, 128, 0, 0, 0, 0],
        // 864691128455135748ul
        vec![4, 2, 0, 0, 0, 0, 0, 12],
        // 4611686018561605761ul
        vec![129, 0, 0, 8, 0, 0, 0, 64],
        // 9368050183473987616ul
        vec![32, 0, 0, 0, 2, 0, 2, 130],
        // 16ul
        vec![16, 0, 0, 0, 0, 0, 0, 0],
        // 4311744512ul
        vec![0, 0, 0, 1, 1, 0, 0, 0],
        // 301989888ul
        vec![0, 0, 0, 18, 0, 0, 0, 0],
        // 1073872896ul
        vec![0, 0, 2, 64, 0, 0, 0, 0],
        // 2377900603788499200ul
        vec![0, 25, 0, 32, 0, 0, 0, 33],
        // 5505024ul
        vec![0, 0, 84, 0, 0, 0, 0, 0],
        // 1152921504606846976ul
        vec![0, 0, 0, 0, 0, 0, 0, 16],
        // 1099511627776ul
        vec![0, 0, 0, 0, 0, 1, 0, 0],
        // 2
        vec![2],
        // 1
        vec![1],
        // 2ul
        vec![2, 0, 0, 0, 0, 0, 0, 0],
        // 2
        vec![2],
        // 255
        vec![255],
        // 251
        vec![251],
        // 127
        vec![127, 0, 0, 0],
        // 18446744073709551615ul
        vec![255, 255, 255, 255, 255, 255, 255, 255],
        // 255
        vec![255],
        // 255
        vec![255],
        // 57
        vec![57],
        // 56
        vec![56],
        // 4
        vec![4],
        // 824
        vec![56, 3],
    ];
    kani::concrete_playback_run(concrete_vals, hmove_std_w);
}
