// Replay of a solver counterexample for property C05, harness board::kani_verif::hmove_promo_b
// failed checks: apply toggles exactly the features that changed
//   at src/board/kani_verif.rs:637 in board::kani_verif::hmove
// native replay: dev: {'test_failed': False, 'matched_checks': [], 'panic': ''}
//                release: {'test_failed': False, 'matched_checks': [], 'panic': ''}
// To re-run: /verif/bin/replay C05 hmove_promo_b   (re-creates the scratch copy, injects the harness and this test
// into src/board/kani_verif.rs, then `cargo kani playback -Z concrete-playback -- kani_concrete_playback_hmove_promo_b_5486013942792283509`)
// The byte vectors below are the concrete values of the harness's kani::any() calls in order.

#[test]
fn kani_concrete_playback_hmove_promo_b_5486013942792283509() {
    let concrete_vals: Vec<Vec<u8>> = vec![
        // 16777216ul
        vec![0, 0, 0, 1, 0, 0, 0, 0],
        // 0ul
        vec![0, 0, 0, 0, 0, 0, 0, 0],
        // 0ul
        vec![0, 0, 0, 0, 0, 0, 0, 0],
        // 0ul
        vec![0, 0, 0, 0, 0, 0, 0, 0],
        // 0ul
        vec![0, 0, 0, 0, 0, 0, 0, 0],
        // 549755813888ul
        vec![0, 0, 0, 0, 128, 0, 0, 0],
        // 512ul
        vec![0, 2, 0, 0, 0, 0, 0, 0],
        // 0ul
        vec![0, 0, 0, 0, 0, 0, 0, 0],
        // 0ul
        vec![0, 0, 0, 0, 0, 0, 0, 0],
        // 0ul
        vec![0, 0, 0, 0, 0, 0, 0, 0],
        // 0ul
        vec![0, 0, 0, 0, 0, 0, 0, 0],
        // 18014398509481984ul
        vec![0, 0, 0, 0, 0, 0, 64, 0],
        // 65536ul
        vec![0, 0, 1, 0, 0, 0, 0, 0],
        // 0
        vec![0],
        // 1
        vec![1],
        // 2ul
        vec![2, 0, 0, 0, 0, 0, 0, 0],
        // 0
        vec![0],
        // 3
        vec![3],
        // 251
        vec![251],
        // 127
        vec![127, 0, 0, 0],
        // 18446744073709551615ul
        vec![255, 255, 255, 255, 255, 255, 255, 255],
        // 255
        vec![255],
        // 255
        vec![255],
        // 9
        vec![9],
        // 1
        vec![1],
        // 1
        vec![1],
        // 800
        vec![32, 3],
    ];
    kani::concrete_playback_run(concrete_vals, hmove_promo_b);
}
