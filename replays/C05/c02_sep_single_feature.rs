// Replay of a solver counterexample for property C05, harness board::kani_verif::c02_sep_single_feature
// failed checks: positions differing in exactly one component have different keys
//   at src/board/kani_verif.rs:754 in board::kani_verif::c02_sep_single_feature
// native replay: dev: {'test_failed': False, 'matched_checks': [], 'panic': ''}
//                release: {'test_failed': False, 'matched_checks': [], 'panic': ''}
// To re-run: /verif/bin/replay C05 c02_sep_single_feature   (re-creates the scratch copy, injects the harness and this test
// into src/board/kani_verif.rs, then `cargo kani playback -Z concrete-playback -- kani_concrete_playback_c02_sep_single_feature_13493628644344741189`)
// The byte vectors below are the concrete values of the harness's kani::any() calls in order.

#[test]
fn kani_concrete_playback_c02_sep_single_feature_13493628644344741189() {
    let concrete_vals: Vec<Vec<u8>> = vec![
        // 1073741824ul
        vec![0, 0, 0, 64, 0, 0, 0, 0],
        // 0ul
        vec![0, 0, 0, 0, 0, 0, 0, 0],
        // 0ul
        vec![0, 0, 0, 0, 0, 0, 0, 0],
        // 0ul
        vec![0, 0, 0, 0, 0, 0, 0, 0],
        // 0ul
        vec![0, 0, 0, 0, 0, 0, 0, 0],
        // 0ul
        vec![0, 0, 0, 0, 0, 0, 0, 0],
        // 0ul
        vec![0, 0, 0, 0, 0, 0, 0, 0],
        // 0ul
        vec![0, 0, 0, 0, 0, 0, 0, 0],
        // 0ul
        vec![0, 0, 0, 0, 0, 0, 0, 0],
        // 15907724029908989ul
        vec![253, 215, 252, 159, 253, 131, 56, 0],
        // 54043195528445952ul
        vec![0, 0, 0, 0, 0, 0, 192, 0],
        // 0ul
        vec![0, 0, 0, 0, 0, 0, 0, 0],
        // 9223372036854775808ul
        vec![0, 0, 0, 0, 0, 0, 0, 128],
        // 0
        vec![0],
        // 1
        vec![1],
        // 9223372036854775808ul
        vec![0, 0, 0, 0, 0, 0, 0, 128],
        // 0
        vec![0],
        // 255
        vec![255],
        // 255
        vec![255],
        // 4294967295
        vec![255, 255, 255, 255],
        // 13835058055282163711ul
        vec![255, 255, 255, 255, 255, 255, 255, 191],
        // 255
        vec![255],
        // 255
        vec![255],
        // 2
        vec![2],
        // 30
        vec![30],
        // 0ul
        vec![0, 0, 0, 0, 0, 0, 0, 0],
    ];
    kani::concrete_playback_run(concrete_vals, c02_sep_single_feature);
}
