// Replay of a solver counterexample for property C05, harness board::kani_verif::hmove_std_b
// failed checks: apply toggles exactly the features that changed
//   at src/board/kani_verif.rs:637 in board::kani_verif::hmove
// native replay: dev: {'test_failed': False, 'matched_checks': [], 'panic': ''}
//                release: {'test_failed': False, 'matched_checks': [], 'panic': ''}
// To re-run: /verif/bin/replay C05 hmove_std_b   (re-creates the scratch copy, injects the harness and this test
// into src/board/kani_verif.rs, then `cargo kani playback -Z concrete-playback -- kani_concrete_playback_hmove_std_b_8277805566774945080`)
// The byte vectors below are the concrete values of the harness's kani::any() calls in order.

#[test]
fn kani_concrete_playback_hmove_std_b_8277805566774945080() {
    let concrete_vals: Vec<Vec<u8>> = vec![
        // 70368811810816ul
        vec![0, 0, 8, 4, 0, 64, 0, 0],
        // 0ul
        vec![0, 0, 0, 0, 0, 0, 0, 0],
        // 134348800ul
        vec![0, 0, 2, 8, 0, 0, 0, 0],
        // 9ul
        vec![9, 0, 0, 0, 0, 0, 0, 0],
        // 4986507429888ul
        vec![0, 8, 1, 3, 137, 4, 0, 0],
        // 8388608ul
        vec![0, 0, 128, 0, 0, 0, 0, 0],
        // 0ul
        vec![0, 0, 0, 0, 0, 0, 0, 0],
        // 0ul
        vec![0, 0, 0, 0, 0, 0, 0, 0],
        // 1407392063422470ul
        vec![6, 0, 0, 0, 4, 0, 5, 0],
        // 4632092955312652544ul
        vec![0, 1, 0, 64, 0, 128, 72, 64],
        // 0ul
        vec![0, 0, 0, 0, 0, 0, 0, 0],
        // 9007199254740992ul
        vec![0, 0, 0, 0, 0, 0, 32, 0],
        // 262144ul
        vec![0, 0, 4, 0, 0, 0, 0, 0],
        // 0
        vec![0],
        // 1
        vec![1],
        // 2ul
        vec![2, 0, 0, 0, 0, 0, 0, 0],
        // 0
        vec![0],
        // 3
        vec![3],
        // 251
        vec![251],
        // 127
        vec![127, 0, 0, 0],
        // 18446744073709551615ul
        vec![255, 255, 255, 255, 255, 255, 255, 255],
        // 255
        vec![255],
        // 255
        vec![255],
        // 51
        vec![51],
        // 43
        vec![43],
        // 4
        vec![4],
        // 802
        vec![34, 3],
    ];
    kani::concrete_playback_run(concrete_vals, hmove_std_b);
}
