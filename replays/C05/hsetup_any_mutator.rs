// Replay of a solver counterexample for property C05, harness board::kani_verif::hsetup_any_mutator
// failed checks: mutator toggles exactly the features that changed
//   at src/board/kani_verif.rs:708 in board::kani_verif::hsetup_any_mutator
// native replay: dev: {'test_failed': False, 'matched_checks': [], 'panic': ''}
//                release: {'test_failed': False, 'matched_checks': [], 'panic': ''}
// To re-run: /verif/bin/replay C05 hsetup_any_mutator   (re-creates the scratch copy, injects the harness and this test
// into src/board/kani_verif.rs, then `cargo kani playback -Z concrete-playback -- kani_concrete_playback_hsetup_any_mutator_3719367286995010476`)
// The byte vectors below are the concrete values of the harness's kani::any() calls in order.

#[test]
fn kani_concrete_playback_hsetup_any_mutator_3719367286995010476() {
    let concrete_vals: Vec<Vec<u8>> = vec![
        // 0ul
        vec![0, 0, 0, 0, 0, 0, 0, 0],
        // 3434709398430158851ul
        vec![3, 16, 32, 0, 0, 138, 170, 47],
        // 80ul
        vec![80, 0, 0, 0, 0, 0, 0, 0],
        // 0ul
        vec![0, 0, 0, 0, 0, 0, 0, 0],
        // 65568ul
        vec![32, 0, 1, 0, 0, 0, 0, 0],
        // 4508135121616896ul
        vec![0, 0, 134, 0, 32, 4, 16, 0],
        // 15007524870517481472ul
        vec![0, 224, 8, 65, 91, 112, 69, 208],
        // 0ul
        vec![0, 0, 0, 0, 0, 0, 0, 0],
        // 2420113408ul
        vec![0, 0, 64, 144, 0, 0, 0, 0],
        // 67108864ul
        vec![0, 0, 0, 4, 0, 0, 0, 0],
        // 1099511627776ul
        vec![0, 0, 0, 0, 0, 1, 0, 0],
        // 567640330124ul
        vec![140, 15, 0, 42, 132, 0, 0, 0],
        // 0ul
        vec![0, 0, 0, 0, 0, 0, 0, 0],
        // 15
        vec![15],
        // 1
        vec![1],
        // 32768ul
        vec![0, 128, 0, 0, 0, 0, 0, 0],
        // 15
        vec![15],
        // 255
        vec![255],
        // 255
        vec![255],
        // 4294967295
        vec![255, 255, 255, 255],
        // 18446744073709551615ul
        vec![255, 255, 255, 255, 255, 255, 255, 255],
        // 255
        vec![255],
        // 255
        vec![255],
        // 3
        vec![3],
        // 42
        vec![42],
        // 5
        vec![5],
        // 1
        vec![1],
        // 0ul
        vec![0, 0, 0, 0, 0, 0, 0, 0],
        // 15
        vec![15],
        // 799
        vec![31, 3],
    ];
    kani::concrete_playback_run(concrete_vals, hsetup_any_mutator);
}
