// Replay of a solver counterexample for property C05, harness board::kani_verif::hmove_ep_w
// failed checks: apply toggles exactly the features that changed
//   at src/board/kani_verif.rs:637 in board::kani_verif::hmove
// native replay: dev: {'test_failed': False, 'matched_checks': [], 'panic': ''}
//                release: {'test_failed': False, 'matched_checks': [], 'panic': ''}
// To re-run: /verif/bin/replay C05 hmove_ep_w   (re-creates the scratch copy, injects the harness and this test
// into src/board/kani_verif.rs, then `cargo kani playback -Z concrete-playback -- kani_concrete_playback_hmove_ep_w_16433749188446900968`)
// The byte vectors below are the concrete values of the harness's kani::any() calls in order.

#[test]
fn kani_concrete_playback_hmove_ep_w_16433749188446900968() {
    let concrete_vals: Vec<Vec<u8>> = vec![
        // 140874941005568ul
        vec![0, 255, 208, 0, 32, 128, 0, 0],
        // 4611686052787126272ul
        vec![0, 0, 0, 0, 8, 0, 0, 64],
        // 0ul
        vec![0, 0, 0, 0, 0, 0, 0, 0],
        // 0ul
        vec![0, 0, 0, 0, 0, 0, 0, 0],
        // 0ul
        vec![0, 0, 0, 0, 0, 0, 0, 0],
        // 1073741824ul
        vec![0, 0, 0, 64, 0, 0, 0, 0],
        // 36107910578176ul
        vec![0, 0, 47, 7, 215, 32, 0, 0],
        // 0ul
        vec![0, 0, 0, 0, 0, 0, 0, 0],
        // 0ul
        vec![0, 0, 0, 0, 0, 0, 0, 0],
        // 0ul
        vec![0, 0, 0, 0, 0, 0, 0, 0],
        // 0ul
        vec![0, 0, 0, 0, 0, 0, 0, 0],
        // 1152921504606846976ul
        vec![0, 0, 0, 0, 0, 0, 0, 16],
        // 17592186044416ul
        vec![0, 0, 0, 0, 0, 16, 0, 0],
        // 0
        vec![0],
        // 1
        vec![1],
        // 2ul
        vec![2, 0, 0, 0, 0, 0, 0, 0],
        // 0
        vec![0],
        // 255
        vec![255],
        // 0
        vec![0],
        // 127
        vec![127, 0, 0, 0],
        // 18446744073709551615ul
        vec![255, 255, 255, 255, 255, 255, 255, 255],
        // 255
        vec![255],
        // 255
        vec![255],
        // 37
        vec![37],
        // 44
        vec![44],
        // 4
        vec![4],
        // 828
        vec![60, 3],
    ];
    kani::concrete_playback_run(concrete_vals, hmove_ep_w);
}
