// Replay of a solver counterexample for property C05, harness board::kani_verif::hmove_promo_w
// failed checks: apply toggles exactly the features that changed
//   at src/board/kani_verif.rs:637 in board::kani_verif::hmove
// native replay: dev: {'test_failed': False, 'matched_checks': [], 'panic': ''}
//                release: {'test_failed': False, 'matched_checks': [], 'panic': ''}
// To re-run: /verif/bin/replay C05 hmove_promo_w   (re-creates the scratch copy, injects the harness and this test
// into src/board/kani_verif.rs, then `cargo kani playback -Z concrete-playback -- kani_concrete_playback_hmove_promo_w_13178444494279850130`)
// The byte vectors below are the concrete values of the harness's kani::any() calls in order.

#[test]
fn kani_concrete_playback_hmove_promo_w_13178444494279850130() {
    let concrete_vals: Vec<Vec<u8>> = vec![
        // 71494644084506624ul
        vec![0, 0, 0, 0, 0, 0, 254, 0],
        // 0ul
        vec![0, 0, 0, 0, 0, 0, 0, 0],
        // 0ul
        vec![0, 0, 0, 0, 0, 0, 0, 0],
        // 10088063165309911168ul
        vec![128, 0, 0, 0, 0, 0, 0, 140],
        // 78ul
        vec![78, 0, 0, 0, 0, 0, 0, 0],
        // 16ul
        vec![16, 0, 0, 0, 0, 0, 0, 0],
        // 4462739456ul
        vec![0, 0, 0, 10, 1, 0, 0, 0],
        // 6917529036231344128ul
        vec![0, 0, 5, 0, 2, 0, 0, 96],
        // 0ul
        vec![0, 0, 0, 0, 0, 0, 0, 0],
        // 0ul
        vec![0, 0, 0, 0, 0, 0, 0, 0],
        // 3557326849ul
        vec![1, 128, 8, 212, 0, 0, 0, 0],
        // 536870912ul
        vec![0, 0, 0, 32, 0, 0, 0, 0],
        // 1099511627776ul
        vec![0, 0, 0, 0, 0, 1, 0, 0],
        // 8
        vec![8],
        // 1
        vec![1],
        // 2ul
        vec![2, 0, 0, 0, 0, 0, 0, 0],
        // 8
        vec![8],
        // 255
        vec![255],
        // 251
        vec![251],
        // 239
        vec![239, 0, 0, 0],
        // 18446744073709551615ul
        vec![255, 255, 255, 255, 255, 255, 255, 255],
        // 255
        vec![255],
        // 255
        vec![255],
        // 53
        vec![53],
        // 62
        vec![62],
        // 3
        vec![3],
        // 824
        vec![56, 3],
    ];
    kani::concrete_playback_run(concrete_vals, hmove_promo_w);
}
