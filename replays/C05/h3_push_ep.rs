// Replay of a solver counterexample for property C05, harness board::kani_verif::h3_push_ep
// failed checks: push: old target's key out, new target's key in
//   at src/board/kani_verif.rs:542 in board::kani_verif::h3
// native replay (cargo kani playback): dev: {'tests_run': 1, 'test_failed': True, 'matched_checks': ["push: old target's key out, new target's key in"], 'panic': "panicked at src/board/kani_verif.rs:542:13:\npush: old target's key out, new target's key in"}
//   release: {'tests_run': 0, 'test_failed': False, 'matched_checks': [], 'panic': ''}
// To re-run: /verif/bin/replay C05 h3_push_ep  -- snapshots /repo, injects the harness, appends the test(s) below to
// src/board/kani_verif.rs and runs `cargo kani playback -Z concrete-playback --lib -- kani_concrete_playback_h3_push_ep_15624078497074308194`
// The byte vectors are the concrete values of the harness's kani::any() calls, in call order.

/// Test generated for harness `board::kani_verif::h3_push_ep` 
///
/// Check for `assertion`: ""push: old target's key out, new target's key in""

#[test]
fn kani_concrete_playback_h3_push_ep_15624078497074308194() {
    let concrete_vals: Vec<Vec<u8>> = vec![
        // 0ul
        vec![0, 0, 0, 0, 0, 0, 0, 0],
        // 0ul
        vec![0, 0, 0, 0, 0, 0, 0, 0],
        // 0ul
        vec![0, 0, 0, 0, 0, 0, 0, 0],
        // 0ul
        vec![0, 0, 0, 0, 0, 0, 0, 0],
        // 0ul
        vec![0, 0, 0, 0, 0, 0, 0, 0],
        // 0ul
        vec![0, 0, 0, 0, 0, 0, 0, 0],
        // 0ul
        vec![0, 0, 0, 0, 0, 0, 0, 0],
        // 0ul
        vec![0, 0, 0, 0, 0, 0, 0, 0],
        // 0ul
        vec![0, 0, 0, 0, 0, 0, 0, 0],
        // 0ul
        vec![0, 0, 0, 0, 0, 0, 0, 0],
        // 0ul
        vec![0, 0, 0, 0, 0, 0, 0, 0],
        // 0ul
        vec![0, 0, 0, 0, 0, 0, 0, 0],
        // 9223372036854775808ul
        vec![0, 0, 0, 0, 0, 0, 0, 128],
        // 0
        vec![0],
        // 0
        vec![0],
        // 0ul
        vec![0, 0, 0, 0, 0, 0, 0, 0],
        // 0
        vec![0],
        // 0
        vec![0],
        // 0
        vec![0],
        // 0
        vec![0, 0, 0, 0],
        // 0ul
        vec![0, 0, 0, 0, 0, 0, 0, 0],
        // 0
        vec![0],
        // 0
        vec![0],
        // 9223372036854775808ul
        vec![0, 0, 0, 0, 0, 0, 0, 128],
    ];
    kani::concrete_playback_run(concrete_vals, h3_push_ep);
}

