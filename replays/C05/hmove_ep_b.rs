// Replay of a solver counterexample for property C05, harness board::kani_verif::hmove_ep_b
// failed checks: apply toggles exactly the features that changed
//   at src/board/kani_verif.rs:637 in board::kani_verif::hmove
// native replay: dev: {'test_failed': False, 'matched_checks': [], 'panic': ''}
//                release: {'test_failed': False, 'matched_checks': [], 'panic': ''}
// To re-run: /verif/bin/replay C05 hmove_ep_b   (re-creates the scratch copy, injects the harness and this test
// into src/board/kani_verif.rs, then `cargo kani playback -Z concrete-playback -- kani_concrete_playback_hmove_ep_b_17856007285082840480`)
// The byte vectors below are the concrete values of the harness's kani::any() calls in order.

#[test]
fn kani_concrete_playback_hmove_ep_b_17856007285082840480() {
    let concrete_vals: Vec<Vec<u8>> = vec![
        // 4244635648ul
        vec![0, 0, 0, 253, 0, 0, 0, 0],
        // 0ul
        vec![0, 0, 0, 0, 0, 0, 0, 0],
        // 0ul
        vec![0, 0, 0, 0, 0, 0, 0, 0],
        // 72057594037927936ul
        vec![0, 0, 0, 0, 0, 0, 0, 1],
        // 32ul
        vec![32, 0, 0, 0, 0, 0, 0, 0],
        // 4611686018427387904ul
        vec![0, 0, 0, 0, 0, 0, 0, 64],
        // 43712512ul
        vec![0, 0, 155, 2, 0, 0, 0, 0],
        // 0ul
        vec![0, 0, 0, 0, 0, 0, 0, 0],
        // 2ul
        vec![2, 0, 0, 0, 0, 0, 0, 0],
        // 128ul
        vec![128, 0, 0, 0, 0, 0, 0, 0],
        // 0ul
        vec![0, 0, 0, 0, 0, 0, 0, 0],
        // 2097152ul
        vec![0, 0, 32, 0, 0, 0, 0, 0],
        // 262144ul
        vec![0, 0, 4, 0, 0, 0, 0, 0],
        // 0
        vec![0],
        // 1
        vec![1],
        // 2ul
        vec![2, 0, 0, 0, 0, 0, 0, 0],
        // 0
        vec![0],
        // 255
        vec![255],
        // 0
        vec![0],
        // 127
        vec![127, 0, 0, 0],
        // 18446744073709551615ul
        vec![255, 255, 255, 255, 255, 255, 255, 255],
        // 255
        vec![255],
        // 255
        vec![255],
        // 25
        vec![25],
        // 18
        vec![18],
        // 4
        vec![4],
        // 802
        vec![34, 3],
    ];
    kani::concrete_playback_run(concrete_vals, hmove_ep_b);
}
