// Replay of a solver counterexample for property C05, harness board::kani_verif::h3_pop_ep
// failed checks: pop: popped target's key out, uncovered target's key in
//   at src/board/kani_verif.rs:547 in board::kani_verif::h3
// native replay: dev: {'test_failed': False, 'matched_checks': [], 'panic': ''}
//                release: {'test_failed': False, 'matched_checks': [], 'panic': ''}
// To re-run: /verif/bin/replay C05 h3_pop_ep   (re-creates the scratch copy, injects the harness and this test
// into src/board/kani_verif.rs, then `cargo kani playback -Z concrete-playback -- kani_concrete_playback_h3_pop_ep_4214250109395140087`)
// The byte vectors below are the concrete values of the harness's kani::any() calls in order.

#[test]
        fn kani_concrete_playback_h3_pop_ep_4214250109395140087() {
            let concrete_vals: Vec<Vec<u8>> = vec![
                // 0ul
                vec![0, 0, 0, 0, 0, 0, 0, 0],
                // 0ul
                vec![0, 0, 0, 0, 0, 0, 0, 0],
                // 0ul
                vec![0, 0, 0, 0, 0, 0, 0, 0],
                // 0ul
                vec![0, 0, 0, 0, 0, 0, 0, 0],
                // 0ul
                vec![0, 0, 0, 0, 0, 0, 0, 0],
                // 0ul
                vec![0, 0, 0, 0, 0, 0, 0, 0],
                // 0ul
                vec![0, 0, 0, 0, 0, 0, 0, 0],
                // 0ul
                vec![0, 0, 0, 0, 0, 0, 0, 0],
                // 0ul
                vec![0, 0, 0, 0, 0, 0, 0, 0],
                // 0ul
                vec![0, 0, 0, 0, 0, 0, 0, 0],
                // 0ul
                vec![0, 0, 0, 0, 0, 0, 0, 0],
                // 0ul
                vec![0, 0, 0, 0, 0, 0, 0, 0],
                // 9223372036854775808ul
                vec![0, 0, 0, 0, 0, 0, 0, 128],
                // 0
                vec![0],
                // 0
                vec![0],
                // 9223372036854775808ul
                vec![0, 0, 0, 0, 0, 0, 0, 128],
                // 0
                vec![0],
                // 0
                vec![0],
                // 0
                vec![0],
                // 0
                vec![0, 0, 0, 0],
                // 0ul
                vec![0, 0, 0, 0, 0, 0, 0, 0],
                // 0
                vec![0],
                // 0
                vec![0],
            ];
            kani::concrete_playback_run(concrete_vals, h3_pop_ep);
        }

        /// Test generated for harness `board::kani_verif::h3_pop_ep` 
        ///
        /// Check for `cover`: "mutator returned"

        #[test]
        fn kani_concrete_playback_h3_pop_ep_2264305480504160526() {
            let concrete_vals: Vec<Vec<u8>> = vec![
                // 18446744073709551615ul
                vec![255, 255, 255, 255, 255, 255, 255, 255],
                // 0ul
                vec![0, 0, 0, 0, 0, 0, 0, 0],
                // 0ul
                vec![0, 0, 0, 0, 0, 0, 0, 0],
                // 0ul
                vec![0, 0, 0, 0, 0, 0, 0, 0],
                // 0ul
                vec![0, 0, 0, 0, 0, 0, 0, 0],
                // 0ul
                vec![0, 0, 0, 0, 0, 0, 0, 0],
                // 0ul
                vec![0, 0, 0, 0, 0, 0, 0, 0],
                // 0ul
                vec![0, 0, 0, 0, 0, 0, 0, 0],
                // 0ul
                vec![0, 0, 0, 0, 0, 0, 0, 0],
                // 0ul
                vec![0, 0, 0, 0, 0, 0, 0, 0],
                // 0ul
                vec![0, 0, 0, 0, 0, 0, 0, 0],
                // 0ul
                vec![0, 0, 0, 0, 0, 0, 0, 0],
                // 0ul
                vec![0, 0, 0, 0, 0, 0, 0, 0],
                // 15
                vec![15],
                // 1
                vec![1],
                // 0ul
                vec![0, 0, 0, 0, 0, 0, 0, 0],
                // 15
                vec![15],
                // 255
                vec![255],
                // 255
                vec![255],
                // 4294967295
                vec![255, 255, 255, 255],
                // 18446744073709551615ul
                vec![255, 255, 255, 255, 255, 255, 255, 255],
                // 255
                vec![255],
                // 255
                vec![255],
            ];
            kani::concrete_playback_run(concrete_vals, h3_pop_ep);
        }
    };
}
