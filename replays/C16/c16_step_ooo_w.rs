// Replay of a solver counterexample for property C16, harness board::kani_verif::c16_step_ooo_w
// failed checks: attempt to add with overflow
//   at src/board/move_info.rs:85 in board::move_info::MoveInfo::increment_fullmove_clock
// native replay (cargo kani playback): dev: {'tests_run': 1, 'test_failed': True, 'matched_checks': ['attempt to add with overflow'], 'panic': 'panicked at src/board/move_info.rs:85:9:\nattempt to add with overflow'}
//   release: {'tests_run': 0, 'test_failed': False, 'matched_checks': [], 'panic': ''}
// To re-run: /verif/bin/replay C16 c16_step_ooo_w  -- snapshots /repo, injects the harness, appends the test(s) below to
// src/board/kani_verif.rs and runs `cargo kani playback -Z concrete-playback --lib -- kani_concrete_playback_c16_step_ooo_w_14898331202978349026`
// The byte vectors are the concrete values of the harness's kani::any() calls, in call order.

/// Test generated for harness `board::kani_verif::c16_step_ooo_w` 
///
/// Check for `assertion`: "attempt to add with overflow"

#[test]
fn kani_concrete_playback_c16_step_ooo_w_14898331202978349026() {
    let concrete_vals: Vec<Vec<u8>> = vec![
        // 786432ul
        vec![0, 0, 12, 0, 0, 0, 0, 0],
        // 2215982122901962752ul
        vec![0, 0, 48, 0, 0, 192, 192, 30],
        // 0ul
        vec![0, 0, 0, 0, 0, 0, 0, 0],
        // 4225ul
        vec![129, 16, 0, 0, 0, 0, 0, 0],
        // 0ul
        vec![0, 0, 0, 0, 0, 0, 0, 0],
        // 16ul
        vec![16, 0, 0, 0, 0, 0, 0, 0],
        // 549755813888ul
        vec![0, 0, 0, 0, 128, 0, 0, 0],
        // 0ul
        vec![0, 0, 0, 0, 0, 0, 0, 0],
        // 256ul
        vec![0, 1, 0, 0, 0, 0, 0, 0],
        // 9295429630892703744ul
        vec![0, 0, 0, 0, 0, 0, 0, 129],
        // 0ul
        vec![0, 0, 0, 0, 0, 0, 0, 0],
        // 4611686018427387904ul
        vec![0, 0, 0, 0, 0, 0, 0, 64],
        // 0ul
        vec![0, 0, 0, 0, 0, 0, 0, 0],
        // 10
        vec![10],
        // 1
        vec![1],
        // 0ul
        vec![0, 0, 0, 0, 0, 0, 0, 0],
        // 10
        vec![10],
        // 251
        vec![251],
        // 5
        vec![5],
        // 99839
        vec![255, 133, 1, 0],
        // 5245093515481998058ul
        vec![234, 98, 2, 60, 195, 80, 202, 72],
        // 255
        vec![255],
        // 255
        vec![255],
        // 4
        vec![4],
        // 2
        vec![2],
        // 4
        vec![4],
    ];
    kani::concrete_playback_run(concrete_vals, c16_step_ooo_w);
}

