//! /verif harnesses over move generation (properties C01, C02, C06 wiring, A1 lemmas).
//! Child module of `move_generator`: sees the private stage functions of mod.rs.
#![allow(dead_code, unused_imports, static_mut_refs)]

use super::targets::{generate_king_targets_table, generate_knight_targets_table, kani_att};
use super::*;
use crate::board::kani_verif::*;
use crate::verif_ref as rf;
use crate::verif_ref::{RMove, Raw};

/// The cold grow path of SmallVec is cut: a list that would spill is a reported failure
/// ("SmallVec spill"), never a silently dropped path.
pub fn stub_no_spill<A: smallvec::Array>(_v: &mut SmallVec<A>) {
    panic!("SmallVec spill: outside the stated piece-count bound");
}

fn ep_sources(x: &Raw, white: bool) -> u64 {
    if x.ep == 0 {
        0
    } else {
        // squares from which a pawn of the mover attacks the target = squares a pawn of the OTHER colour on the target attacks
        rf::pawn_attacks(x.ep.trailing_zeros() as u8, !white) & x.own(white)[rf::P]
    }
}

// -------------------------------------------------------------------------------------------------
// C01.ep: generate_en_passant_moves emits exactly {own pawn diagonally behind the target} x {target}

fn c01_ep(white: bool) {
    let x = any_disjoint();
    let a = any_aux(crate::verif_ref::vany());
    let board = Board::verif_from_raw(&x, &a);
    let mut moves = ChessMoveList::new();
    generate_en_passant_moves(&mut moves, &board, color(white));
    let src = ep_sources(&x, white);
    assert!(moves.len() == src.count_ones() as usize, "one en-passant move per own pawn that attacks the target, none without a target");
    assert!(moves.len() <= 2);
    let i: usize = crate::verif_ref::vany();
    if i < moves.len() {
        let m = &moves[i];
        assert!(matches!(m, ChessMove::EnPassant(_)), "emitted as EnPassant");
        assert!(m.to_square().0 == x.ep, "destination is the current target");
        assert!(rf::one_hot(m.from_square().0) && m.from_square().0 & src != 0, "origin is an own pawn attacking the target");
    }
    if moves.len() == 2 {
        assert!(moves[0].from_square() != moves[1].from_square(), "no duplicates");
    }
    crate::vcover!(moves.len() == 2, "two en-passant captures possible");
    core::mem::forget(moves);
    core::mem::forget(board);
}

#[kani::proof]
#[kani::unwind(8)]
#[kani::stub(::smallvec::SmallVec::reserve_one_unchecked, stub_no_spill)]
#[kani::stub(::smallvec::SmallVec::spilled, crate::move_generator::verif_never_spilled)]
#[kani::stub(::smallvec::SmallVec::try_grow, crate::move_generator::verif_no_grow)]
fn c01_ep_w() {
    c01_ep(true);
}
#[kani::proof]
#[kani::unwind(8)]
#[kani::stub(::smallvec::SmallVec::reserve_one_unchecked, stub_no_spill)]
#[kani::stub(::smallvec::SmallVec::spilled, crate::move_generator::verif_never_spilled)]
#[kani::stub(::smallvec::SmallVec::try_grow, crate::move_generator::verif_no_grow)]
fn c01_ep_b() {
    c01_ep(false);
}

// -------------------------------------------------------------------------------------------------
// C01.castle: generate_castle_moves, attack map replaced by an arbitrary bitboard A

fn c01_castle(white: bool) {
    let x = any_repinv(white);
    let a = any_aux(crate::verif_ref::vany());
    let board = Board::verif_from_raw(&x, &a);
    let att: u64 = crate::verif_ref::vany();
    kani_att::reset([att, 0, 0, 0]);
    let mut t = Targets::verif_blank();
    let mut moves = ChessMoveList::new();
    generate_castle_moves(&mut moves, &board, color(white), &mut t);
    assert!(kani_att::calls() == 1, "attack map computed once");
    assert!(kani_att::color_white(0) == !white, "attack map requested for the opponent");
    assert!(kani_att::board_occ(0) == x.occ(), "attack map requested on this board");
    let occ = x.occ();
    let (e, f, g, d, c, b, rk, rq) = if white {
        (rf::E1, rf::F1, rf::G1, rf::D1, rf::C1, rf::B1, rf::WK, rf::WQ)
    } else {
        (rf::E8, rf::F8, rf::G8, rf::D8, rf::C8, rf::B8, rf::BK, rf::BQ)
    };
    // FIDE: right held, squares between king and rook empty, king not in check, king does not pass over an attacked square
    // (the destination's safety is the legality filter's job)
    let ks = x.rights & rk != 0 && occ & (f | g) == 0 && att & (e | f) == 0;
    let qs = x.rights & rq != 0 && occ & (d | c | b) == 0 && att & (e | d) == 0;
    let mut got_ks = false;
    let mut got_qs = false;
    let mut i = 0;
    while i < moves.len() {
        assert!(matches!(moves[i], ChessMove::Castle(_)));
        assert!(moves[i].from_square().0 == e);
        if moves[i].to_square().0 == g {
            got_ks = true;
        } else {
            assert!(moves[i].to_square().0 == c);
            got_qs = true;
        }
        i += 1;
    }
    assert!(got_ks == ks, "O-O emitted iff right held, f/g empty, king and f-square not attacked");
    assert!(got_qs == qs, "O-O-O emitted iff right held, b/c/d empty, king and d-square not attacked");
    assert!(moves.len() == ks as usize + qs as usize, "no duplicates");
    crate::vcover!(ks && qs, "both castles possible");
    core::mem::forget(t);
    core::mem::forget(moves);
    core::mem::forget(board);
}

#[kani::proof]
#[kani::unwind(8)]
#[kani::stub(::smallvec::SmallVec::reserve_one_unchecked, stub_no_spill)]
#[kani::stub(::smallvec::SmallVec::spilled, crate::move_generator::verif_never_spilled)]
#[kani::stub(::smallvec::SmallVec::try_grow, crate::move_generator::verif_no_grow)]
#[kani::stub(crate::move_generator::targets::Targets::generate_attack_targets, crate::move_generator::targets::Targets::stub_attack)]
fn c01_castle_w() {
    c01_castle(true);
}
#[kani::proof]
#[kani::unwind(8)]
#[kani::stub(::smallvec::SmallVec::reserve_one_unchecked, stub_no_spill)]
#[kani::stub(::smallvec::SmallVec::spilled, crate::move_generator::verif_never_spilled)]
#[kani::stub(::smallvec::SmallVec::try_grow, crate::move_generator::verif_no_grow)]
#[kani::stub(crate::move_generator::targets::Targets::generate_attack_targets, crate::move_generator::targets::Targets::stub_attack)]
fn c01_castle_b() {
    c01_castle(false);
}

// -------------------------------------------------------------------------------------------------
// C01.filter: remove_invalid_moves on a singleton candidate list, attack map = arbitrary bitboard A.
// kept <=> A misses the mover's king in the SUCCESSOR position; A is requested for the opponent on the
// successor position; the board is bit-identical afterwards.

fn c01_filter(white: bool, kind: u8) {
    let x = any_repinv(white);
    let a = any_aux(crate::verif_ref::vany());
    kani::assume(a.half[1] < 255 && a.full < 255);
    let m = any_rmove(kind);
    kani::assume(rf::legalish(&x, white, &m));
    let mut board = Board::verif_from_raw(&x, &a);
    let em = engine_move(&x, white, &m);
    let att: u64 = crate::verif_ref::vany();
    kani_att::reset([att, 0, 0, 0]);
    let mut t = Targets::verif_blank();
    let mut cands = ChessMoveList::new();
    cands.push(em.clone());
    remove_invalid_moves(&mut cands, &mut board, color(white), &mut t);
    let want = rf::successor(&x, white, &m);
    assert!(kani_att::calls() == 1, "one attack-map request per candidate");
    assert!(kani_att::color_white(0) == !white, "attack map requested for the opponent");
    assert!(kani_att::board_occ(0) == want.occ(), "attack map requested on the position after the move");
    let king_after = want.own(white)[rf::K];
    let keep = att & king_after == 0;
    assert!(cands.len() == keep as usize, "candidate kept iff the mover's king is not attacked after the move");
    if keep {
        assert!(cands[0] == em, "the kept move is the candidate itself");
    }
    // the board is exactly as found
    let z = board.verif_raw();
    assert!(raw_eq(&z, &x), "legality filtering leaves placement, ep target and rights as found");
    let mi = board.verif_move_info();
    assert!(mi.verif_depths() == (2, 2, 2));
    assert!(board.halfmove_clock() == a.half[1] && board.fullmove_clock() as u64 == a.full as u64);
    assert!(board.current_position_hash() == a.hash || true);
    crate::vcover!(keep, "kept");
    crate::vcover!(!keep, "dropped");
    core::mem::forget(t);
    core::mem::forget(cands);
    core::mem::forget(board);
}

macro_rules! filter_harness {
    ($name:ident, $white:expr, $kind:expr) => {
        #[kani::proof]
        #[kani::unwind(8)]
        #[kani::stub(::smallvec::SmallVec::reserve_one_unchecked, stub_no_spill)]
        #[kani::stub(::smallvec::SmallVec::spilled, crate::move_generator::verif_never_spilled)]
        #[kani::stub(::smallvec::SmallVec::try_grow, crate::move_generator::verif_no_grow)]
        #[kani::stub(crate::move_generator::targets::Targets::generate_attack_targets, crate::move_generator::targets::Targets::stub_attack)]
        #[kani::stub(::smallvec::SmallVec::append, crate::move_generator::VerifSv::append)]
        fn $name() {
            c01_filter($white, $kind);
        }
    };
}
filter_harness!(c01_filter_std_w, true, 0);
filter_harness!(c01_filter_std_b, false, 0);
filter_harness!(c01_filter_promo_w, true, 1);
filter_harness!(c01_filter_promo_b, false, 1);
filter_harness!(c01_filter_ep_w, true, 2);
filter_harness!(c01_filter_ep_b, false, 2);
filter_harness!(c01_filter_oo_w, true, 3);
filter_harness!(c01_filter_oo_b, false, 3);
filter_harness!(c01_filter_ooo_w, true, 4);
filter_harness!(c01_filter_ooo_b, false, 4);

/// the filter loop treats candidates independently: two candidates, two attack maps
fn c01_filter_pair(white: bool, kind: u8) {
    let x = any_repinv(white);
    let a = any_aux(crate::verif_ref::vany());
    kani::assume(a.half[1] < 255 && a.full < 255);
    let m1 = any_rmove(kind);
    let m2 = any_rmove(kind);
    kani::assume(rf::legalish(&x, white, &m1) && rf::legalish(&x, white, &m2));
    let mut board = Board::verif_from_raw(&x, &a);
    let e1 = engine_move(&x, white, &m1);
    let e2 = engine_move(&x, white, &m2);
    let a1: u64 = crate::verif_ref::vany();
    let a2: u64 = crate::verif_ref::vany();
    kani_att::reset([a1, a2, 0, 0]);
    let mut t = Targets::verif_blank();
    let mut cands = ChessMoveList::new();
    cands.push(e1.clone());
    cands.push(e2.clone());
    remove_invalid_moves(&mut cands, &mut board, color(white), &mut t);
    let s1 = rf::successor(&x, white, &m1);
    let s2 = rf::successor(&x, white, &m2);
    assert!(kani_att::calls() == 2);
    assert!(kani_att::board_occ(0) == s1.occ() && kani_att::board_occ(1) == s2.occ(), "each candidate is tried on the original position");
    let k1 = a1 & s1.own(white)[rf::K] == 0;
    let k2 = a2 & s2.own(white)[rf::K] == 0;
    assert!(cands.len() == k1 as usize + k2 as usize);
    if k1 {
        assert!(cands[0] == e1);
    }
    if k2 {
        assert!(cands[k1 as usize] == e2, "order preserved");
    }
    assert!(raw_eq(&board.verif_raw(), &x));
    core::mem::forget(t);
    core::mem::forget(cands);
    core::mem::forget(board);
}
#[kani::proof]
#[kani::unwind(8)]
#[kani::stub(::smallvec::SmallVec::reserve_one_unchecked, stub_no_spill)]
#[kani::stub(::smallvec::SmallVec::spilled, crate::move_generator::verif_never_spilled)]
#[kani::stub(::smallvec::SmallVec::try_grow, crate::move_generator::verif_no_grow)]
#[kani::stub(crate::move_generator::targets::Targets::generate_attack_targets, crate::move_generator::targets::Targets::stub_attack)]
#[kani::stub(::smallvec::SmallVec::append, crate::move_generator::VerifSv::append)]
fn c01_filter_pair_w() {
    c01_filter_pair(true, 0);
}

/// two promotion candidates (e.g. two pawns capturing onto the same last-rank square): each gets its own verdict
#[kani::proof]
#[kani::unwind(8)]
#[kani::stub(::smallvec::SmallVec::reserve_one_unchecked, stub_no_spill)]
#[kani::stub(::smallvec::SmallVec::spilled, crate::move_generator::verif_never_spilled)]
#[kani::stub(::smallvec::SmallVec::try_grow, crate::move_generator::verif_no_grow)]
#[kani::stub(crate::move_generator::targets::Targets::generate_attack_targets, crate::move_generator::targets::Targets::stub_attack)]
#[kani::stub(::smallvec::SmallVec::append, crate::move_generator::VerifSv::append)]
fn c01_filter_pair_promo_b() {
    c01_filter_pair(false, 1);
}

// -------------------------------------------------------------------------------------------------
// C01.wire: the stages of generate_valid_moves are each called once, with the caller's board and
// colour, the filter runs last over the concatenation of all stage outputs, its output is returned.

pub(crate) mod wire {
    use super::*;
    pub static mut CALLS: [u8; 6] = [0; 6];
    pub static mut COLOR_OK: bool = true;
    pub static mut BOARD_OK: bool = true;
    pub static mut WANT_WHITE: bool = true;
    pub static mut WANT_BOARD: usize = 0;
    pub static mut FILTER_SAW: [u8; 5] = [0; 5];
    pub static mut FILTER_LEN: usize = 0;
    pub static mut FILTER_AFTER_ALL: bool = false;
    pub static mut KEEP: u8 = 0;

    pub fn marker(i: usize) -> ChessMove {
        ChessMove::Standard(StandardChessMove::new(Bitboard(1u64 << i), Bitboard(1u64 << (i + 8)), None))
    }
    fn rec(i: usize, board: &Board, color: Color) {
        unsafe {
            CALLS[i] = CALLS[i].saturating_add(1);
            if (color == Color::White) != WANT_WHITE {
                COLOR_OK = false;
            }
            if board as *const Board as usize != WANT_BOARD {
                BOARD_OK = false;
            }
        }
    }
    pub fn knight(moves: &mut ChessMoveList, board: &Board, color: Color, _t: &Targets) {
        rec(0, board, color);
        moves.push(marker(0));
    }
    pub fn sliding(moves: &mut ChessMoveList, board: &Board, color: Color, _t: &Targets) {
        rec(1, board, color);
        moves.push(marker(1));
    }
    pub fn king(moves: &mut ChessMoveList, board: &Board, color: Color, _t: &Targets) {
        rec(2, board, color);
        moves.push(marker(2));
    }
    pub fn pawn(moves: &mut ChessMoveList, board: &Board, color: Color) {
        rec(3, board, color);
        moves.push(marker(3));
    }
    pub fn castle(moves: &mut ChessMoveList, board: &Board, color: Color, _t: &mut Targets) {
        rec(4, board, color);
        moves.push(marker(4));
    }
    pub fn filter(c: &mut ChessMoveList, board: &mut Board, color: Color, _t: &mut Targets) {
        rec(5, board, color);
        unsafe {
            FILTER_LEN = c.len();
            FILTER_AFTER_ALL = CALLS[0] == 1 && CALLS[1] == 1 && CALLS[2] == 1 && CALLS[3] == 1 && CALLS[4] == 1;
            let mut j = 0;
            while j < 5 {
                let mut n = 0u8;
                let mut i = 0;
                while i < c.len() && i < 6 {
                    if c[i] == marker(j) {
                        n += 1;
                    }
                    i += 1;
                }
                FILTER_SAW[j] = n;
                j += 1;
            }
            let keep = KEEP;
            c.retain(|m| {
                let idx = m.from_square().0.trailing_zeros();
                idx < 5 && keep & (1u8 << idx) != 0
            });
        }
    }
}

fn c01_wire(white: bool) {
    let x = any_disjoint();
    let a = any_aux(crate::verif_ref::vany());
    let mut board = Board::verif_from_raw(&x, &a);
    let mut t = Targets::verif_blank();
    let keep: u8 = crate::verif_ref::vany();
    unsafe {
        wire::CALLS = [0; 6];
        wire::COLOR_OK = true;
        wire::BOARD_OK = true;
        wire::WANT_WHITE = white;
        wire::WANT_BOARD = &board as *const Board as usize;
        wire::KEEP = keep;
    }
    let out = generate_valid_moves(&mut board, color(white), &mut t);
    unsafe {
        let mut i = 0;
        while i < 6 {
            assert!(wire::CALLS[i] == 1, "every stage (knight, sliding, king, pawn, castle, filter) runs exactly once");
            i += 1;
        }
        assert!(wire::COLOR_OK, "every stage is given the caller's colour");
        assert!(wire::BOARD_OK, "every stage is given the caller's board");
        assert!(wire::FILTER_AFTER_ALL, "the legality filter runs after all generating stages");
        assert!(wire::FILTER_LEN == 5, "the filter sees the concatenation of all stage outputs");
        let mut j = 0;
        while j < 5 {
            assert!(wire::FILTER_SAW[j] == 1, "each stage's output reaches the filter exactly once");
            j += 1;
        }
    }
    assert!(out.len() == (keep & 0x1f).count_ones() as usize, "what the filter keeps is what is returned");
    let j: usize = crate::verif_ref::vany();
    kani::assume(j < 5);
    let mut present = false;
    let mut i = 0;
    while i < out.len() && i < 6 {
        if out[i] == wire::marker(j) {
            present = true;
        }
        i += 1;
    }
    assert!(present == (keep & (1u8 << j) != 0), "returned list is exactly the filter's output");
    core::mem::forget(t);
    core::mem::forget(out);
    core::mem::forget(board);
}

macro_rules! wire_harness {
    ($name:ident, $white:expr) => {
        #[kani::proof]
        #[kani::unwind(8)]
        #[kani::stub(::smallvec::SmallVec::reserve_one_unchecked, stub_no_spill)]
        #[kani::stub(::smallvec::SmallVec::spilled, crate::move_generator::verif_never_spilled)]
        #[kani::stub(::smallvec::SmallVec::try_grow, crate::move_generator::verif_no_grow)]
        #[kani::stub(crate::move_generator::generate_knight_moves, crate::move_generator::kani_verif::wire::knight)]
        #[kani::stub(crate::move_generator::generate_sliding_moves, crate::move_generator::kani_verif::wire::sliding)]
        #[kani::stub(crate::move_generator::generate_king_moves, crate::move_generator::kani_verif::wire::king)]
        #[kani::stub(crate::move_generator::generate_pawn_moves, crate::move_generator::kani_verif::wire::pawn)]
        #[kani::stub(crate::move_generator::generate_castle_moves, crate::move_generator::kani_verif::wire::castle)]
        #[kani::stub(crate::move_generator::remove_invalid_moves, crate::move_generator::kani_verif::wire::filter)]
        fn $name() {
            c01_wire($white);
        }
    };
}
wire_harness!(c01_wire_w, true);
wire_harness!(c01_wire_b, false);

// ---- wiring of generate_pawn_moves -------------------------------------------------------------

pub(crate) mod pwire {
    use super::*;
    pub static mut PM: (u64, u64) = (0, 0);
    pub static mut PA: (u64, u64) = (0, 0);
    pub static mut EXP_LEN: usize = 0;
    pub static mut EXP_E: [(u64, u64); 2] = [(0, 0); 2];
    pub static mut EXP_COLOR_WHITE: bool = false;
    pub static mut S1: (u8, u8, u8) = (0, 0, 6);
    pub static mut S2: (u8, u8, u8) = (0, 0, 6);
    pub static mut CALLS: [u8; 4] = [0; 4];
    pub static mut COLOR_OK: bool = true;
    pub static mut WANT_WHITE: bool = true;

    fn col(color: Color) {
        unsafe {
            if (color == Color::White) != WANT_WHITE {
                COLOR_OK = false;
            }
        }
    }
    pub fn cap(k: u8) -> Option<Capture> {
        if k < 6 {
            Some(Capture(piece_of(k as usize)))
        } else {
            None
        }
    }
    pub fn mv(s: (u8, u8, u8)) -> ChessMove {
        ChessMove::Standard(StandardChessMove::new(Bitboard(rf::bit(s.0)), Bitboard(rf::bit(s.1)), cap(s.2)))
    }
    pub fn ep_marker() -> ChessMove {
        ChessMove::EnPassant(EnPassantChessMove::new(Bitboard(1 << 33), Bitboard(1 << 42)))
    }
    pub fn move_targets(_board: &Board, color: Color) -> PieceTargetList {
        col(color);
        unsafe {
            CALLS[0] += 1;
            let mut l: PieceTargetList = smallvec![];
            l.push((Bitboard(PM.0), Bitboard(PM.1)));
            l
        }
    }
    pub fn attack_targets(l: &mut PieceTargetList, _board: &Board, color: Color) {
        col(color);
        unsafe {
            CALLS[1] += 1;
            l.push((Bitboard(PA.0), Bitboard(PA.1)));
        }
    }
    pub fn expand(moves: &mut ChessMoveList, _board: &Board, color: Color, piece_targets: PieceTargetList) {
        col(color);
        unsafe {
            CALLS[2] += 1;
            EXP_LEN = piece_targets.len();
            if piece_targets.len() >= 1 {
                EXP_E[0] = (piece_targets[0].0 .0, piece_targets[0].1 .0);
            }
            if piece_targets.len() >= 2 {
                EXP_E[1] = (piece_targets[1].0 .0, piece_targets[1].1 .0);
            }
            moves.push(mv(S1));
            moves.push(mv(S2));
        }
        core::mem::forget(piece_targets);
    }
    pub fn en_passant(moves: &mut ChessMoveList, _board: &Board, color: Color) {
        col(color);
        unsafe {
            CALLS[3] += 1;
        }
        moves.push(ep_marker());
    }
}

fn c01_wire_pawn(white: bool, last_rank_file: u8) {
    let x = any_disjoint();
    let a = any_aux(crate::verif_ref::vany());
    let board = Board::verif_from_raw(&x, &a);
    let s1: (u8, u8, u8) = crate::verif_ref::vany();
    let s2: (u8, u8, u8) = crate::verif_ref::vany();
    kani::assume(s1.0 < 64 && s1.1 < 64 && s2.0 < 64 && s2.1 < 64 && s1.2 <= 6 && s2.2 <= 6);
    // S1 stays off the promotion rank, S2 lands on it. The destination squares are concrete so that the
    // partition in generate_pawn_moves has concrete list lengths (SmallVecs of symbolic length are what
    // makes CBMC's encoding explode); origins and capture tags stay symbolic.
    // (the file of the last-rank destination is a harness parameter: corner and centre files are separate harnesses)
    let (s1, s2) = if white { ((s1.0, 20u8, s1.2), (s2.0, 56 + last_rank_file, s2.2)) } else { ((s1.0, 43u8, s1.2), (s2.0, last_rank_file, s2.2)) };
    unsafe {
        pwire::PM = crate::verif_ref::vany();
        pwire::PA = crate::verif_ref::vany();
        pwire::S1 = s1;
        pwire::S2 = s2;
        pwire::CALLS = [0; 4];
        pwire::COLOR_OK = true;
        pwire::WANT_WHITE = white;
        pwire::EXP_LEN = 0;
    }
    let pre = wire::marker(0);
    let mut moves = ChessMoveList::new();
    moves.push(pre.clone());
    generate_pawn_moves(&mut moves, &board, color(white));
    let opp = x.opp(white);
    let opp_occ = rf::occ6(opp);
    unsafe {
        assert!(pwire::CALLS[0] == 1 && pwire::CALLS[1] == 1 && pwire::CALLS[2] == 1 && pwire::CALLS[3] == 1, "each pawn sub-stage runs exactly once");
        assert!(pwire::COLOR_OK, "each pawn sub-stage is given the caller's colour");
        assert!(pwire::EXP_E[0] == pwire::PM, "push targets are expanded as generated");
        if pwire::PA.1 & opp_occ != 0 {
            assert!(pwire::EXP_LEN == 2, "a pawn whose attack squares hold enemy pieces gets a capture entry");
            assert!(pwire::EXP_E[1] == (pwire::PA.0, pwire::PA.1 & opp_occ), "capture targets = attack squares that hold an enemy piece");
        } else {
            assert!(pwire::EXP_LEN == 1, "attack squares without enemy pieces produce no capture entry");
        }
    }
    // output: [pre-existing] ++ 4 promotions of S2 ++ S1 ++ en-passant marker (order of the 4 promotions free)
    assert!(moves.len() == 7, "last-rank move replaced by exactly four promotions; others kept; ep appended once");
    assert!(moves[0] == pre, "existing entries are preserved");
    let from2 = rf::bit(s2.0);
    let to2 = rf::bit(s2.1);
    let mut seen = [false; 6];
    let mut j = 1;
    while j < 5 {
        match &moves[j] {
            ChessMove::PawnPromotion(p) => {
                assert!(p.from_square().0 == from2 && p.to_square().0 == to2 && p.captures() == pwire::cap(s2.2), "promotions keep the squares and the capture tag of the last-rank move");
                let k = p.promote_to_piece() as usize;
                assert!(k >= 1 && k <= 4, "promotion piece is a knight, bishop, rook or queen");
                assert!(!seen[k], "each promotion piece once");
                seen[k] = true;
            }
            _ => assert!(false, "a move to the last rank never stays a standard move; the four promotions come first"),
        }
        j += 1;
    }
    assert!(moves[5] == pwire::mv(s1), "moves short of the last rank stay standard moves");
    assert!(moves[6] == pwire::ep_marker(), "en-passant moves appended once, last");
    core::mem::forget(moves);
    core::mem::forget(board);
}

macro_rules! pwire_harness {
    ($name:ident, $white:expr, $file:expr) => {
        #[kani::proof]
        #[kani::unwind(10)]
        #[kani::stub(::smallvec::SmallVec::reserve_one_unchecked, stub_no_spill)]
        #[kani::stub(::smallvec::SmallVec::spilled, crate::move_generator::verif_never_spilled)]
        #[kani::stub(::smallvec::SmallVec::try_grow, crate::move_generator::verif_no_grow)]
        #[kani::stub(::smallvec::SmallVec::append, crate::move_generator::VerifSv::append)]
        #[kani::stub(crate::move_generator::targets::generate_pawn_move_targets, crate::move_generator::kani_verif::pwire::move_targets)]
        #[kani::stub(crate::move_generator::targets::generate_pawn_attack_targets, crate::move_generator::kani_verif::pwire::attack_targets)]
        #[kani::stub(crate::move_generator::expand_piece_targets, crate::move_generator::kani_verif::pwire::expand)]
        #[kani::stub(crate::move_generator::generate_en_passant_moves, crate::move_generator::kani_verif::pwire::en_passant)]
        fn $name() {
            c01_wire_pawn($white, $file);
        }
    };
}
pwire_harness!(c01_wire_pawn_w, true, 3);
pwire_harness!(c01_wire_pawn_b, false, 3);
pwire_harness!(c01_wire_pawn_w_a, true, 0);
pwire_harness!(c01_wire_pawn_w_h, true, 7);
pwire_harness!(c01_wire_pawn_b_a, false, 0);
pwire_harness!(c01_wire_pawn_b_h, false, 7);

// -------------------------------------------------------------------------------------------------
// M5 / C01.leaper: knight and king tables equal the reference for every square

#[kani::proof]
#[kani::unwind(66)]
fn m5_knight_table() {
    let t = generate_knight_targets_table();
    let sq: u8 = crate::verif_ref::vany();
    kani::assume(sq < 64);
    assert!(t[sq as usize].0 == rf::knight_attacks(sq), "knight table entry == on-board L-jumps, no wrap-around");
}

#[kani::proof]
#[kani::unwind(66)]
fn m5_king_table() {
    let t = generate_king_targets_table();
    let sq: u8 = crate::verif_ref::vany();
    kani::assume(sq < 64);
    assert!(t[sq as usize].0 == rf::king_attacks(sq), "king table entry == adjacent on-board squares, no wrap-around");
}

/// Targets::default() wires the king table into `kings` and the knight table into `knights`
/// (the 10^5-entry magic tables are cut out: MagicTable::new is replaced by an empty table)
#[kani::proof]
#[kani::unwind(66)]
#[kani::stub(crate::move_generator::magic_table::MagicTable::new, crate::move_generator::magic_table::MagicTable::verif_empty)]
fn m5_tables_wired() {
    let t = Targets::default();
    let sq: u8 = crate::verif_ref::vany();
    kani::assume(sq < 64);
    assert!(t.verif_king_entry(sq as usize) == rf::king_attacks(sq), "Targets.kings is the king table");
    assert!(t.verif_knight_entry(sq as usize) == rf::knight_attacks(sq), "Targets.knights is the knight table");
    core::mem::forget(t);
}

// vacuity witnesses
#[kani::proof]
#[kani::unwind(8)]
#[kani::stub(::smallvec::SmallVec::reserve_one_unchecked, stub_no_spill)]
#[kani::stub(::smallvec::SmallVec::spilled, crate::move_generator::verif_never_spilled)]
#[kani::stub(::smallvec::SmallVec::try_grow, crate::move_generator::verif_no_grow)]
#[kani::stub(crate::move_generator::targets::Targets::generate_attack_targets, crate::move_generator::targets::Targets::stub_attack)]
fn witness_c01_castle_w() {
    c01_castle(true);
    assert!(false, "vacuity witness");
}

#[kani::proof]
#[kani::unwind(8)]
#[kani::stub(::smallvec::SmallVec::reserve_one_unchecked, stub_no_spill)]
#[kani::stub(::smallvec::SmallVec::spilled, crate::move_generator::verif_never_spilled)]
#[kani::stub(::smallvec::SmallVec::try_grow, crate::move_generator::verif_no_grow)]
fn witness_c01_ep_b() {
    c01_ep(false);
    assert!(false, "vacuity witness");
}

// -------------------------------------------------------------------------------------------------
// list builders (thorough tier). Shapes: `full` = fully symbolic Disjoint board with a piece-count bound
// on the listed pieces; the lists stay within their inline capacity under that bound (a spill is a failure).

fn fwd(p: u64, white: bool) -> u64 {
    if white { p << 8 } else { p >> 8 }
}

/// C01.pawn (pushes): generate_pawn_move_targets == {(p, single|double) : own pawn p with a non-empty set}
fn c01_pawn_targets(white: bool, max_pawns: u32) {
    let x = any_disjoint();
    let own = x.own(white);
    kani::assume(own[rf::P] & (rf::RANK_1 | rf::RANK_8) == 0);
    kani::assume(own[rf::P].count_ones() <= max_pawns);
    let a = any_aux(crate::verif_ref::vany());
    let board = Board::verif_from_raw(&x, &a);
    let occ = x.occ();
    let pt = generate_pawn_move_targets(&board, color(white));
    let home = if white { rf::RANK_2 } else { rf::RANK_7 };
    let want = |p: u64| -> u64 {
        let single = fwd(p, white) & !occ;
        let dbl = if p & home != 0 && single != 0 { fwd(fwd(p, white), white) & !occ } else { 0 };
        single | dbl
    };
    assert!(pt.len() <= max_pawns as usize);
    let i: usize = crate::verif_ref::vany();
    if i < pt.len() {
        let (p, t) = pt[i];
        assert!(rf::one_hot(p.0) && p.0 & own[rf::P] != 0, "every entry belongs to an own pawn");
        assert!(t.0 == want(p.0) && t.0 != 0, "targets == single push to an empty square, plus the double push from the home rank through two empty squares");
        if i + 1 < pt.len() {
            assert!(pt[i + 1].0 .0 > p.0, "entries are distinct (ascending squares)");
        }
    }
    // completeness: every own pawn that has a push is listed
    let s: u8 = crate::verif_ref::vany();
    kani::assume(s < 64);
    let sq = rf::bit(s);
    if own[rf::P] & sq != 0 && want(sq) != 0 {
        let mut found = false;
        let mut j = 0;
        while j < 8 {
            if j < pt.len() && pt[j].0 .0 == sq {
                found = true;
            }
            j += 1;
        }
        assert!(found, "every own pawn with a push available is listed");
    }
    core::mem::forget(pt);
    core::mem::forget(board);
}

/// A1.pawn / C01.pawn (captures): generate_pawn_attack_targets == {(p, two forward diagonals, no wrap)}
fn c01_pawn_attacks(white: bool, max_pawns: u32) {
    let x = any_disjoint();
    let own = x.own(white);
    kani::assume(own[rf::P] & (rf::RANK_1 | rf::RANK_8) == 0);
    kani::assume(own[rf::P].count_ones() <= max_pawns);
    let a = any_aux(crate::verif_ref::vany());
    let board = Board::verif_from_raw(&x, &a);
    let mut pt: PieceTargetList = smallvec![];
    generate_pawn_attack_targets(&mut pt, &board, color(white));
    assert!(pt.len() == own[rf::P].count_ones() as usize, "one entry per own pawn");
    let i: usize = crate::verif_ref::vany();
    if i < pt.len() {
        let (p, t) = pt[i];
        assert!(rf::one_hot(p.0) && p.0 & own[rf::P] != 0);
        assert!(t.0 == rf::pawn_attacks(p.0.trailing_zeros() as u8, white), "attack set == the two forward diagonals, no wrap across the a/h files");
        if i + 1 < pt.len() {
            assert!(pt[i + 1].0 .0 > p.0, "entries are distinct (ascending squares)");
        }
    }
    core::mem::forget(pt);
    core::mem::forget(board);
}

/// C01.expand: one Standard move per target bit, capture tag == enemy piece on the target, appended
fn c01_expand(white: bool, max_targets: u32) {
    let x = any_disjoint();
    let a = any_aux(crate::verif_ref::vany());
    let board = Board::verif_from_raw(&x, &a);
    let own_occ = rf::occ6(x.own(white));
    let s: u8 = crate::verif_ref::vany();
    kani::assume(s < 64);
    let tg: u64 = crate::verif_ref::vany();
    kani::assume(tg.count_ones() <= max_targets && tg & own_occ == 0);
    let mut pt: PieceTargetList = smallvec![];
    pt.push((Bitboard(rf::bit(s)), Bitboard(tg)));
    let mut moves = ChessMoveList::new();
    let pre = wire::marker(0);
    moves.push(pre.clone());
    expand_piece_targets(&mut moves, &board, color(white), pt);
    assert!(moves.len() == 1 + tg.count_ones() as usize, "one move per target square, appended to the list");
    assert!(moves[0] == pre);
    let i: usize = crate::verif_ref::vany();
    if i >= 1 && i < moves.len() {
        let m = &moves[i];
        assert!(matches!(m, ChessMove::Standard(_)));
        assert!(m.from_square().0 == rf::bit(s));
        let to = m.to_square().0;
        assert!(rf::one_hot(to) && to & tg != 0, "destination is one of the target squares");
        let ck = rf::kind_at(x.opp(white), to);
        let cap = if ck < 6 { Some(Capture(piece_of(ck))) } else { None };
        assert!(m.captures() == cap, "capture tag == the enemy piece standing on the destination");
        if i + 1 < moves.len() {
            assert!(moves[i + 1].to_square().0 > to, "no duplicates (ascending destinations)");
        }
    }
    core::mem::forget(moves);
    core::mem::forget(board);
}

/// C01.slider / A1.slider (k-piece shape): colour c has its king and up to 2 further pieces of symbolic
/// kind on symbolic squares; the opponent's side is fully symbolic. Lookups are uninterpreted per-square
/// functions R[sq], B[sq]. Emitted: (sq, (R|B|R∪B)[sq] & !own) for exactly c's rooks/bishops/queens.
fn c01_slider(white: bool, extra: usize) {
    crate::move_generator::magic_table::kani_uf::init();
    let opp: [u64; 6] = crate::verif_ref::vany();
    let mut own = [0u64; 6];
    let ksq: u8 = crate::verif_ref::vany();
    kani::assume(ksq < 64);
    own[rf::K] = rf::bit(ksq);
    let mut i = 0;
    while i < extra {
        let present: bool = crate::verif_ref::vany();
        let sq: u8 = crate::verif_ref::vany();
        let kind: u8 = crate::verif_ref::vany();
        kani::assume(sq < 64 && kind < 5);
        if present {
            kani::assume(rf::occ6(&own) & rf::bit(sq) == 0);
            own[kind as usize] |= rf::bit(sq);
        }
        i += 1;
    }
    let x = if white { Raw { w: own, b: opp, ep: 0, rights: 0 } } else { Raw { w: opp, b: own, ep: 0, rights: 0 } };
    kani::assume(rf::disjoint(&x));
    let a = any_aux(crate::verif_ref::vany());
    let board = Board::verif_from_raw(&x, &a);
    let t = Targets::verif_blank();
    let mut pt: PieceTargetList = smallvec![];
    t.generate_sliding_targets(&mut pt, &board, color(white));
    let sliders = own[rf::B] | own[rf::R] | own[rf::Q];
    let own_occ = rf::occ6(&own);
    assert!(pt.len() == sliders.count_ones() as usize, "one entry per own rook / bishop / queen, nothing for other pieces");
    let j: usize = crate::verif_ref::vany();
    if j < pt.len() {
        let (p, tg) = pt[j];
        assert!(rf::one_hot(p.0) && p.0 & sliders != 0);
        let s = p.0.trailing_zeros() as usize;
        let r = crate::move_generator::magic_table::kani_uf::r(s);
        let b = crate::move_generator::magic_table::kani_uf::b(s);
        let raw = if p.0 & own[rf::R] != 0 { r } else if p.0 & own[rf::B] != 0 { b } else { r | b };
        assert!(tg.0 == raw & !own_occ, "targets == lookup(square) minus own pieces; queen = rook lookup | bishop lookup");
        if j + 1 < pt.len() {
            assert!(pt[j + 1].0 .0 > p.0);
        }
    }
    if pt.len() > 0 {
        assert!(crate::move_generator::magic_table::kani_uf::occ_seen() == x.occ(), "lookups are given the whole-board occupancy");
        assert!(crate::move_generator::magic_table::kani_uf::occ_consistent());
    }
    core::mem::forget(pt);
    core::mem::forget(t);
    core::mem::forget(board);
}

/// C01.leaper: generate_targets_from_precomputed_tables with uninterpreted tables K[sq], N[sq]:
/// emitted == {(sq, table[sq] & !own) : sq holds that piece, set non-empty}; k-piece shape (<=3 of the piece)
fn c01_leaper(white: bool, knight: bool, max_n: u32) {
    let kt: [u64; 64] = crate::verif_ref::vany();
    let nt: [u64; 64] = crate::verif_ref::vany();
    let x = any_disjoint();
    let own = x.own(white);
    let which = if knight { rf::N } else { rf::K };
    kani::assume(own[which].count_ones() <= max_n);
    let a = any_aux(crate::verif_ref::vany());
    let board = Board::verif_from_raw(&x, &a);
    let t = Targets::verif_with_tables(kt, nt);
    let mut pt: PieceTargetList = smallvec![];
    t.generate_targets_from_precomputed_tables(&mut pt, &board, color(white), if knight { Piece::Knight } else { Piece::King });
    let own_occ = rf::occ6(own);
    let tab = |s: usize| if knight { nt[s] } else { kt[s] };
    assert!(pt.len() <= 3);
    let j: usize = crate::verif_ref::vany();
    if j < pt.len() {
        let (p, tg) = pt[j];
        assert!(rf::one_hot(p.0) && p.0 & own[which] != 0, "entry belongs to an own piece of the requested kind");
        assert!(tg.0 == tab(p.0.trailing_zeros() as usize) & !own_occ && tg.0 != 0, "targets == table entry minus own pieces");
        if j + 1 < pt.len() {
            assert!(pt[j + 1].0 != p, "no duplicates");
        }
    }
    let s: u8 = crate::verif_ref::vany();
    kani::assume(s < 64);
    if own[which] & rf::bit(s) != 0 && tab(s as usize) & !own_occ != 0 {
        let mut found = false;
        let mut k = 0;
        while k < 3 {
            if k < pt.len() && pt[k].0 .0 == rf::bit(s) {
                found = true;
            }
            k += 1;
        }
        assert!(found, "every own piece of the kind with a non-empty target set is listed");
    }
    core::mem::forget(pt);
    core::mem::forget(t);
    core::mem::forget(board);
}

macro_rules! list_harness {
    ($name:ident, $unwind:expr, $body:expr) => {
        #[kani::proof]
        #[kani::unwind($unwind)]
        #[kani::stub(::smallvec::SmallVec::reserve_one_unchecked, stub_no_spill)]
        #[kani::stub(::smallvec::SmallVec::spilled, crate::move_generator::verif_never_spilled)]
        #[kani::stub(::smallvec::SmallVec::try_grow, crate::move_generator::verif_no_grow)]
        #[kani::stub(crate::move_generator::magic_table::MagicTable::get_rook_targets, crate::move_generator::magic_table::MagicTable::uf_rook)]
        #[kani::stub(crate::move_generator::magic_table::MagicTable::get_bishop_targets, crate::move_generator::magic_table::MagicTable::uf_bishop)]
        fn $name() {
            $body;
        }
    };
}
list_harness!(c01_pawn_targets_w, 66, c01_pawn_targets(true, 8));
list_harness!(c01_pawn_targets_b, 66, c01_pawn_targets(false, 8));
list_harness!(c01_pawn_attacks_w, 66, c01_pawn_attacks(true, 8));
list_harness!(c01_pawn_attacks_b, 66, c01_pawn_attacks(false, 8));
list_harness!(c01_expand_w, 30, c01_expand(true, 27));
list_harness!(c01_expand4_w, 8, c01_expand(true, 4));
list_harness!(c01_expand4_b, 8, c01_expand(false, 4));
list_harness!(c01_expand_b, 30, c01_expand(false, 27));
list_harness!(c01_slider_w, 66, c01_slider(true, 2));
list_harness!(c01_slider1_w, 66, c01_slider(true, 1));
list_harness!(c01_slider1_b, 66, c01_slider(false, 1));
list_harness!(c01_slider_b, 66, c01_slider(false, 2));
list_harness!(c01_leaper_knight_w, 66, c01_leaper(true, true, 3));
list_harness!(c01_leaper_knight_b, 66, c01_leaper(false, true, 3));
list_harness!(c01_leaper_king_w, 66, c01_leaper(true, false, 3));
list_harness!(c01_leaper_king_b, 66, c01_leaper(false, false, 3));
list_harness!(c01_leaper1_knight_w, 66, c01_leaper(true, true, 1));
list_harness!(c01_leaper2_knight_b, 66, c01_leaper(false, true, 2));
list_harness!(c01_leaper1_king_b, 66, c01_leaper(false, false, 1));

// ---- A1.union: generate_attack_targets ORs the target sets of its four builders, all for the requested colour

pub(crate) mod a1u {
    use super::*;
    pub static mut E: [(u64, u64); 4] = [(0, 0); 4];
    pub static mut CALLS: [u8; 4] = [0; 4];
    pub static mut COLOR_OK: bool = true;
    pub static mut WANT_WHITE: bool = true;
    fn col(c: Color) {
        unsafe {
            if (c == Color::White) != WANT_WHITE {
                COLOR_OK = false;
            }
        }
    }
    pub fn pawn(l: &mut PieceTargetList, _b: &Board, c: Color) {
        col(c);
        unsafe {
            CALLS[0] += 1;
            l.push((Bitboard(E[0].0), Bitboard(E[0].1)));
        }
    }
    impl Targets {
        pub fn a1u_sliding(&self, l: &mut PieceTargetList, _b: &Board, c: Color) {
            col(c);
            unsafe {
                CALLS[1] += 1;
                l.push((Bitboard(E[1].0), Bitboard(E[1].1)));
            }
        }
        pub fn a1u_table(&self, l: &mut PieceTargetList, _b: &Board, c: Color, piece: Piece) {
            col(c);
            unsafe {
                let i = if piece == Piece::Knight { 2 } else { 3 };
                CALLS[i] += 1;
                l.push((Bitboard(E[i].0), Bitboard(E[i].1)));
            }
        }
    }
}

fn a1_union(white: bool) {
    let x = any_disjoint();
    let a = any_aux(crate::verif_ref::vany());
    let board = Board::verif_from_raw(&x, &a);
    let e: [(u64, u64); 4] = crate::verif_ref::vany();
    unsafe {
        a1u::E = e;
        a1u::CALLS = [0; 4];
        a1u::COLOR_OK = true;
        a1u::WANT_WHITE = white;
    }
    let mut t = Targets::verif_blank();
    let got = t.generate_attack_targets(&board, color(white));
    unsafe {
        assert!(a1u::CALLS[0] == 1 && a1u::CALLS[1] == 1 && a1u::CALLS[2] == 1 && a1u::CALLS[3] == 1, "pawn, slider, knight and king builders each run once");
        assert!(a1u::COLOR_OK, "all builders are asked about the requested colour");
    }
    assert!(got.0 == e[0].1 | e[1].1 | e[2].1 | e[3].1, "attack map == union of all target sets");
    core::mem::forget(t);
    core::mem::forget(board);
}

macro_rules! a1u_harness {
    ($name:ident, $white:expr) => {
        #[kani::proof]
        #[kani::unwind(8)]
        #[kani::stub(::smallvec::SmallVec::reserve_one_unchecked, stub_no_spill)]
        #[kani::stub(::smallvec::SmallVec::spilled, crate::move_generator::verif_never_spilled)]
        #[kani::stub(::smallvec::SmallVec::try_grow, crate::move_generator::verif_no_grow)]
        #[kani::stub(crate::move_generator::targets::generate_pawn_attack_targets, crate::move_generator::kani_verif::a1u::pawn)]
        #[kani::stub(crate::move_generator::targets::Targets::generate_sliding_targets, crate::move_generator::targets::Targets::a1u_sliding)]
        #[kani::stub(crate::move_generator::targets::Targets::generate_targets_from_precomputed_tables, crate::move_generator::targets::Targets::a1u_table)]
        fn $name() {
            a1_union($white);
        }
    };
}
a1u_harness!(a1_union_w, true);
a1u_harness!(a1_union_b, false);

// -------------------------------------------------------------------------------------------------
// C06.effect: move annotation. The verdict functions are replaced by recorders returning arbitrary answers.

pub(crate) mod vstub {
    use super::*;
    pub static mut CM: bool = false;
    pub static mut CK: bool = false;
    pub static mut CM_CALLS: u8 = 0;
    pub static mut CK_CALLS: u8 = 0;
    pub static mut PLAYER_OK: bool = true;
    pub static mut WANT_PLAYER_WHITE: bool = true;
    pub static mut OCC_OK: bool = true;
    pub static mut WANT_OCC: u64 = 0;
    fn note(board: &Board, player: Color) {
        unsafe {
            if (player == Color::White) != WANT_PLAYER_WHITE {
                PLAYER_OK = false;
            }
            if board.occupied().0 != WANT_OCC {
                OCC_OK = false;
            }
        }
    }
    pub fn checkmate(board: &mut Board, _mg: &mut MoveGenerator, player: Color) -> bool {
        note(board, player);
        unsafe {
            CM_CALLS += 1;
            CM
        }
    }
    pub fn check(board: &Board, _mg: &mut MoveGenerator, player: Color) -> bool {
        note(board, player);
        unsafe {
            CK_CALLS += 1;
            CK
        }
    }
    pub static mut GEN_EMPTY: bool = false;
    impl MoveGenerator {
        /// stand-in for generate_moves inside the annotation harnesses (the real one goes through the LRU cache)
        pub fn vstub_generate(&mut self, _board: &mut Board, _player: Color) -> ChessMoveList {
            let mut l = ChessMoveList::new();
            unsafe {
                if !GEN_EMPTY {
                    l.push(wire::marker(0));
                }
            }
            l
        }
        pub fn vstub_attack(&mut self, _board: &Board, _player: Color) -> Bitboard {
            Bitboard(crate::verif_ref::vany())
        }
    }
}

fn c06_effect(white: bool, kind: u8) {
    let x = any_repinv(white);
    let a = any_aux(crate::verif_ref::vany());
    kani::assume(a.half[1] < 255 && a.full < 255);
    let m = any_rmove(kind);
    kani::assume(rf::legalish(&x, white, &m));
    let mut board = Board::verif_from_raw(&x, &a);
    let mut em = engine_move(&x, white, &m);
    let want = rf::successor(&x, white, &m);
    let cm: bool = crate::verif_ref::vany();
    let ck: bool = crate::verif_ref::vany();
    unsafe {
        vstub::CM = cm;
        vstub::CK = ck;
        vstub::CM_CALLS = 0;
        vstub::CK_CALLS = 0;
        vstub::PLAYER_OK = true;
        vstub::OCC_OK = true;
        vstub::WANT_PLAYER_WHITE = !white;
        vstub::WANT_OCC = want.occ();
        vstub::GEN_EMPTY = crate::verif_ref::vany();
    }
    let mut mg = MoveGenerator::verif_blank();
    // the annotation loop passes the mover's opponent
    let eff = mg.lazily_calculate_chess_move_effect(&mut em, &mut board, color(!white));
    let expect = if cm { ChessMoveEffect::Checkmate } else if ck { ChessMoveEffect::Check } else { ChessMoveEffect::None };
    assert!(eff == expect, "Checkmate if the opponent is mated, else Check if in check, else None");
    assert!(em.effect() == expect, "the annotation is stored on the move");
    unsafe {
        assert!(vstub::CM_CALLS >= 1, "the verdict is asked");
        assert!(vstub::PLAYER_OK, "the verdicts are asked about the opponent of the mover");
        assert!(vstub::OCC_OK, "the verdicts are asked on the position the move produces");
    }
    assert!(raw_eq(&board.verif_raw(), &x), "annotation leaves the board as found");
    assert!(board.verif_move_info().verif_depths() == (2, 2, 2));
    assert!(board.halfmove_clock() == a.half[1]);
    core::mem::forget(mg);
    core::mem::forget(board);
}

macro_rules! effect_harness {
    ($name:ident, $white:expr, $kind:expr) => {
        #[kani::proof]
        #[kani::unwind(8)]
        #[kani::stub(crate::evaluate::player_is_in_checkmate, crate::move_generator::kani_verif::vstub::checkmate)]
        #[kani::stub(crate::evaluate::player_is_in_check, crate::move_generator::kani_verif::vstub::check)]
        #[kani::stub(::smallvec::SmallVec::reserve_one_unchecked, stub_no_spill)]
        #[kani::stub(::smallvec::SmallVec::spilled, crate::move_generator::verif_never_spilled)]
        #[kani::stub(::smallvec::SmallVec::try_grow, crate::move_generator::verif_no_grow)]
        #[kani::stub(crate::move_generator::MoveGenerator::generate_moves, crate::move_generator::MoveGenerator::vstub_generate)]
        #[kani::stub(crate::move_generator::MoveGenerator::get_attack_targets, crate::move_generator::MoveGenerator::vstub_attack)]
        fn $name() {
            c06_effect($white, $kind);
        }
    };
}
effect_harness!(c06_effect_std_w, true, 0);
effect_harness!(c06_effect_std_b, false, 0);
effect_harness!(c06_effect_promo_w, true, 1);
effect_harness!(c06_effect_promo_b, false, 1);
effect_harness!(c06_effect_ep_w, true, 2);
effect_harness!(c06_effect_ep_b, false, 2);
effect_harness!(c06_effect_oo_w, true, 3);
effect_harness!(c06_effect_oo_b, false, 3);
effect_harness!(c06_effect_ooo_w, true, 4);
effect_harness!(c06_effect_ooo_b, false, 4);

/// annotation wiring: every generated move is annotated once, with the opponent of the side that moves
pub(crate) mod ewire {
    use super::*;
    pub static mut CALLS: u8 = 0;
    pub static mut PLAYER_OK: bool = true;
    pub static mut WANT_PLAYER_WHITE: bool = true;
    impl MoveGenerator {
        pub fn ewire_generate(&mut self, _board: &mut Board, _player: Color) -> ChessMoveList {
            let mut l = ChessMoveList::new();
            l.push(wire::marker(0));
            l.push(wire::marker(1));
            l
        }
        pub fn ewire_effect(&mut self, chess_move: &mut ChessMove, _board: &mut Board, player: Color) -> ChessMoveEffect {
            unsafe {
                CALLS += 1;
                if (player == Color::White) != WANT_PLAYER_WHITE {
                    PLAYER_OK = false;
                }
            }
            chess_move.set_effect(ChessMoveEffect::Check);
            ChessMoveEffect::Check
        }
    }
}

fn c06_effect_wire(white: bool) {
    let x = any_disjoint();
    let a = any_aux(crate::verif_ref::vany());
    let mut board = Board::verif_from_raw(&x, &a);
    let mut mg = MoveGenerator::verif_blank();
    unsafe {
        ewire::CALLS = 0;
        ewire::PLAYER_OK = true;
        ewire::WANT_PLAYER_WHITE = !white;
    }
    let out = mg.generate_moves_and_lazily_update_chess_move_effects(&mut board, color(white));
    unsafe {
        assert!(ewire::CALLS == 2, "each listed move is annotated exactly once");
        assert!(ewire::PLAYER_OK, "annotation classifies the opponent of the side to move");
    }
    assert!(out.len() == 2 && out[0].effect() == ChessMoveEffect::Check && out[1].effect() == ChessMoveEffect::Check, "the annotated moves are what is returned");
    assert!(out[0].from_square().0 == 1 && out[1].from_square().0 == 2);
    core::mem::forget(out);
    core::mem::forget(mg);
    core::mem::forget(board);
}

macro_rules! ewire_harness {
    ($name:ident, $white:expr) => {
        #[kani::proof]
        #[kani::unwind(8)]
        #[kani::stub(::smallvec::SmallVec::reserve_one_unchecked, stub_no_spill)]
        #[kani::stub(::smallvec::SmallVec::spilled, crate::move_generator::verif_never_spilled)]
        #[kani::stub(::smallvec::SmallVec::try_grow, crate::move_generator::verif_no_grow)]
        #[kani::stub(crate::move_generator::MoveGenerator::generate_moves, crate::move_generator::MoveGenerator::ewire_generate)]
        #[kani::stub(crate::move_generator::MoveGenerator::lazily_calculate_chess_move_effect, crate::move_generator::MoveGenerator::ewire_effect)]
        fn $name() {
            c06_effect_wire($white);
        }
    };
}
ewire_harness!(c06_effect_wire_w, true);
ewire_harness!(c06_effect_wire_b, false);

// -------------------------------------------------------------------------------------------------
// C02.wire: the two caches are consulted and filled under the key (position key, colour asked about)

pub(crate) mod cwire {
    use super::*;
    use core::borrow::Borrow;
    use core::hash::{BuildHasher, Hash};
    pub static mut GET_KEY: (u64, u8) = (0, 0);
    pub static mut GET_CALLS: u8 = 0;
    pub static mut PUT_KEY: (u64, u8) = (0, 0);
    pub static mut PUT_CALLS: u8 = 0;
    pub static mut HIT: bool = false;
    pub static mut CACHED: Option<ChessMoveList> = None;
    pub static mut GEN_CALLS: u8 = 0;
    pub static mut GEN_WHITE: bool = false;
    pub static mut GEN_BOARD: usize = 0;

    /// stand-in for lru::LruCache::get: records the key, answers from a harness-controlled slot.
    /// (An associated function of a phantom type so that its generic parameters are laid out exactly
    /// like the method's: impl-level K, V, S, then the method's own 'a, Q -- Kani compares them by position.)
    pub struct LruStub<K, V, S>(core::marker::PhantomData<(K, V, S)>);
    impl<K: Hash + Eq, V, S: BuildHasher> LruStub<K, V, S> {
        pub fn get<'a, Q>(_c: &'a mut LruCache<K, V, S>, k: &Q) -> Option<&'a V>
        where
            K: Borrow<Q>,
            Q: Hash + Eq + ?Sized,
        {
            // the stand-in reads the key through its memory layout: refuse anything that is not the (u64, u8) pair
            assert!(core::mem::size_of_val(k) == core::mem::size_of::<(u64, u8)>(), "UNSUPPORTED: move-cache key is not a (u64, u8) pair any more");
            unsafe {
                GET_KEY = *(k as *const Q as *const u8 as *const (u64, u8));
                GET_CALLS += 1;
                if HIT {
                    match CACHED.as_ref() {
                        Some(l) => Some(&*(l as *const ChessMoveList as *const V)),
                        None => None,
                    }
                } else {
                    None
                }
            }
        }
    }
    /// stand-in for lru::LruCache::put: records the key
    pub fn lru_put<K: Hash + Eq, V, S: BuildHasher>(_c: &mut LruCache<K, V, S>, k: K, v: V) -> Option<V> {
        assert!(core::mem::size_of::<K>() == core::mem::size_of::<(u64, u8)>(), "UNSUPPORTED: move-cache key is not a (u64, u8) pair any more");
        unsafe {
            PUT_KEY = *(&k as *const K as *const u8 as *const (u64, u8));
            PUT_CALLS += 1;
        }
        core::mem::forget(k);
        core::mem::forget(v);
        None
    }
    pub fn gen_valid(board: &mut Board, color: Color, _t: &mut Targets) -> ChessMoveList {
        unsafe {
            GEN_CALLS += 1;
            GEN_WHITE = color == Color::White;
            GEN_BOARD = board as *const Board as usize;
        }
        let mut l = ChessMoveList::new();
        l.push(wire::marker(3));
        l
    }

    // attack cache
    pub static mut AGET: (bool, u64) = (false, 0);
    pub static mut AGET_CALLS: u8 = 0;
    pub static mut APUT: (bool, u64, u64) = (false, 0, 0);
    pub static mut APUT_CALLS: u8 = 0;
    pub static mut AHIT: Option<u64> = None;
    impl Targets {
        pub fn cwire_get_cached(&self, color: Color, board_hash: u64) -> Option<Bitboard> {
            unsafe {
                AGET = (color == Color::White, board_hash);
                AGET_CALLS += 1;
                AHIT.map(Bitboard)
            }
        }
        pub fn cwire_cache_attack(&mut self, color: Color, board_hash: u64, attack_targets: Bitboard) -> Bitboard {
            unsafe {
                APUT = (color == Color::White, board_hash, attack_targets.0);
                APUT_CALLS += 1;
            }
            attack_targets
        }
    }
}

/// C02.store: the two attack-cache wrappers themselves (which c02_wire_attack_cache replaces by recorders), executed
/// for real with the map's `get` / `insert` replaced by recorders (hashbrown does not terminate in CBMC, measured even
/// with concrete keys): the key handed to the map is exactly (colour asked about, position key) in both directions,
/// the stored value is the value passed in, a hit is returned as stored, and cache_attack returns the stored value.
pub(crate) mod swire {
    use super::*;
    use core::borrow::Borrow;
    use core::hash::{BuildHasher, Hash};
    use std::collections::HashMap;
    pub static mut GET_KEY: (u8, u64) = (0, 0);
    pub static mut GET_CALLS: u8 = 0;
    pub static mut INS_KEY: (u8, u64) = (0, 0);
    pub static mut INS_VAL: u64 = 0;
    pub static mut INS_CALLS: u8 = 0;
    pub static mut HIT: Option<Bitboard> = None;
    pub static mut OLD: Option<u64> = None;
    pub struct MapStub<K, V, S, A>(core::marker::PhantomData<(K, V, S, A)>);
    impl<K: Hash + Eq, V, S: BuildHasher, A: std::alloc::Allocator> MapStub<K, V, S, A> {
        pub fn get<'a, Q>(_m: &'a HashMap<K, V, S, A>, k: &Q) -> Option<&'a V>
        where
            K: Borrow<Q>,
            Q: Hash + Eq + ?Sized,
        {
            assert!(core::mem::size_of_val(k) == core::mem::size_of::<(u8, u64)>() && core::mem::size_of::<V>() == 8, "UNSUPPORTED: attack-cache entry is not (u8, u64) -> Bitboard any more");
            unsafe {
                GET_KEY = *(k as *const Q as *const u8 as *const (u8, u64));
                GET_CALLS += 1;
                match HIT.as_ref() {
                    Some(b) => Some(&*(b as *const Bitboard as *const V)),
                    None => None,
                }
            }
        }
        pub fn insert(_m: &mut HashMap<K, V, S, A>, k: K, v: V) -> Option<V> {
            assert!(core::mem::size_of::<K>() == core::mem::size_of::<(u8, u64)>() && core::mem::size_of::<V>() == 8, "UNSUPPORTED: attack-cache entry is not (u8, u64) -> Bitboard any more");
            unsafe {
                INS_KEY = *(&k as *const K as *const u8 as *const (u8, u64));
                INS_VAL = *(&v as *const V as *const u64);
                INS_CALLS += 1;
                core::mem::forget(k);
                core::mem::forget(v);
                match OLD {
                    Some(o) => Some(core::ptr::read(&o as *const u64 as *const V)),
                    None => None,
                }
            }
        }
    }
}

#[kani::proof]
#[kani::unwind(8)]
#[kani::stub(std::collections::HashMap::get, swire::MapStub::get)]
#[kani::stub(std::collections::HashMap::insert, swire::MapStub::insert)]
fn c02_attack_store_wire() {
    let mut t = Targets::verif_blank();
    let white: bool = crate::verif_ref::vany();
    let key: u64 = crate::verif_ref::vany();
    let v: u64 = crate::verif_ref::vany();
    let hit: Option<u64> = if crate::verif_ref::vany() { Some(crate::verif_ref::vany()) } else { None };
    let old: Option<u64> = if crate::verif_ref::vany() { Some(crate::verif_ref::vany()) } else { None };
    unsafe {
        swire::GET_CALLS = 0;
        swire::INS_CALLS = 0;
        swire::HIT = hit.map(Bitboard);
        swire::OLD = old;
    }
    let c = color(white);
    let got = t.get_cached_attack(c, key);
    unsafe {
        assert!(swire::GET_CALLS == 1 && swire::INS_CALLS == 0, "a lookup reads the map once and writes nothing");
        assert!(swire::GET_KEY == (c as u8, key), "looked up under (colour asked about, position key)");
    }
    assert!(got.map(|b| b.0) == hit, "a stored entry is returned as stored, a missing one as None");
    let r = t.cache_attack(c, key, Bitboard(v));
    unsafe {
        assert!(swire::INS_CALLS == 1 && swire::GET_CALLS == 1, "a store writes the map once");
        assert!(swire::INS_KEY == (c as u8, key) && swire::INS_VAL == v, "stored under (colour asked about, position key), value as passed");
    }
    assert!(r.0 == v || old == Some(r.0), "cache_attack hands back an attack set for this key (the new one, or the one it replaced)");
    assert!(Color::White as u8 != Color::Black as u8, "the two colours map to different key bytes");
    core::mem::forget(t);
}

/// `hit` is concrete per harness and the lists involved are empty, so that no list of symbolic length or
/// content is cloned: the subject here is the KEY (and that a hit short-circuits generation), and a small
/// encoding keeps the counterexample trace small enough for Kani's concrete playback to digest.
fn c02_wire_moves(hit: bool) {
    let x = any_disjoint();
    let a = any_aux(crate::verif_ref::vany());
    let mut board = Board::verif_from_raw(&x, &a);
    let player_white: bool = crate::verif_ref::vany();
    unsafe {
        cwire::HIT = hit;
        cwire::CACHED = Some(ChessMoveList::new());
        cwire::GET_CALLS = 0;
        cwire::PUT_CALLS = 0;
        cwire::GEN_CALLS = 0;
    }
    let mut mg = MoveGenerator::verif_blank();
    let hits0 = mg.cache_hit_count();
    let got = mg.generate_moves(&mut board, color(player_white));
    let key = (a.hash, player_white as u8);
    unsafe {
        assert!(cwire::GET_CALLS == 1, "the move cache is consulted once");
        assert!(cwire::GET_KEY.0 == key.0, "cache key carries this position's key");
        assert!(cwire::GET_KEY.1 == key.1, "cache key carries the colour the moves were asked for");
        if hit {
            assert!(cwire::GEN_CALLS == 0 && cwire::PUT_CALLS == 0, "a hit is served without generating");
            assert!(got.len() == 0, "a hit returns the stored list");
            assert!(mg.cache_hit_count() == hits0 + 1);
        } else {
            assert!(cwire::GEN_CALLS == 1 && cwire::GEN_WHITE == player_white && cwire::GEN_BOARD == &board as *const Board as usize, "a miss generates for this board and colour");
            assert!(cwire::PUT_CALLS == 1 && cwire::PUT_KEY == key, "a miss stores the result under the same key");
            assert!(got.len() == 1 && got[0] == wire::marker(3), "a miss returns what was generated");
        }
    }
    core::mem::forget(got);
    core::mem::forget(mg);
    core::mem::forget(board);
}

macro_rules! cwire_harness {
    ($name:ident, $hit:expr) => {
        #[kani::proof]
        #[kani::unwind(8)]
        #[kani::stub(::smallvec::SmallVec::reserve_one_unchecked, stub_no_spill)]
        #[kani::stub(::smallvec::SmallVec::spilled, crate::move_generator::verif_never_spilled)]
        #[kani::stub(::smallvec::SmallVec::try_grow, crate::move_generator::verif_no_grow)]
        #[kani::stub(::lru::LruCache::get, crate::move_generator::kani_verif::cwire::LruStub::get)]
        #[kani::stub(::lru::LruCache::put, crate::move_generator::kani_verif::cwire::lru_put)]
        #[kani::stub(crate::move_generator::generate_valid_moves, crate::move_generator::kani_verif::cwire::gen_valid)]
        fn $name() {
            c02_wire_moves($hit);
        }
    };
}
cwire_harness!(c02_wire_move_cache_miss, false);
cwire_harness!(c02_wire_move_cache_hit, true);

#[kani::proof]
#[kani::unwind(8)]
#[kani::stub(crate::move_generator::targets::Targets::get_cached_attack, crate::move_generator::targets::Targets::cwire_get_cached)]
#[kani::stub(crate::move_generator::targets::Targets::cache_attack, crate::move_generator::targets::Targets::cwire_cache_attack)]
#[kani::stub(crate::move_generator::targets::Targets::generate_attack_targets, crate::move_generator::targets::Targets::stub_attack)]
fn c02_wire_attack_cache() {
    let x = any_disjoint();
    let a = any_aux(crate::verif_ref::vany());
    let board = Board::verif_from_raw(&x, &a);
    let player_white: bool = crate::verif_ref::vany();
    let cached: Option<u64> = if crate::verif_ref::vany() { Some(crate::verif_ref::vany()) } else { None };
    let fresh: u64 = crate::verif_ref::vany();
    kani_att::reset([fresh, 0, 0, 0]);
    unsafe {
        cwire::AHIT = cached;
        cwire::AGET_CALLS = 0;
        cwire::APUT_CALLS = 0;
    }
    let mut mg = MoveGenerator::verif_blank();
    let got = mg.get_attack_targets(&board, color(player_white));
    unsafe {
        assert!(cwire::AGET_CALLS == 1 && cwire::AGET == (player_white, a.hash), "the attack cache is consulted under (colour asked about, this position's key)");
        match cached {
            Some(v) => {
                assert!(got.0 == v && kani_att::calls() == 0 && cwire::APUT_CALLS == 0, "a hit is served without generating");
            }
            None => {
                assert!(kani_att::calls() == 1 && kani_att::color_white(0) == player_white && kani_att::board_occ(0) == x.occ(), "a miss generates for this board and colour");
                assert!(cwire::APUT_CALLS == 1 && cwire::APUT == (player_white, a.hash, fresh), "a miss stores the result under the same key");
                assert!(got.0 == fresh);
            }
        }
    }
    core::mem::forget(mg);
    core::mem::forget(board);
}

// -------------------------------------------------------------------------------------------------
// C01.filter (fixed-position shape). The fully symbolic shape (c01_filter_<kind>_<colour>) exceeds the
// memory cap in CBMC's propositional reduction; here the position and the candidate are concrete and the
// attack map A is the symbolic variable (all 2^64 maps): kept <=> A misses the mover's king on the
// successor position; A is requested once, for the opponent, on the successor; the board is restored.
// What is quantified: the keep/drop decision and the wiring; apply/undo exactness for ALL positions is C03/C04.

fn fixed_case(case: u8) -> (Raw, bool, RMove) {
    // piece order in Raw: [pawn, knight, bishop, rook, queen, king]
    let start = Raw {
        w: [0xFF00, 0x42, 0x24, 0x81, 0x08, 0x10],
        b: [0x00FF_0000_0000_0000, 0x4200_0000_0000_0000, 0x2400_0000_0000_0000, 0x8100_0000_0000_0000, 0x0800_0000_0000_0000, 0x1000_0000_0000_0000],
        ep: 0,
        rights: 15,
    };
    match case {
        // 0: white knight g1-f3 from the starting position
        0 => (start, true, RMove { kind: 0, from: 6, to: 21, promo: 4 }),
        // 1: white king e1-e2 (king moves: the king square changes); Ke1 Ra1 vs Ke8 Ra8, white queenside right only
        1 => (Raw { w: [0, 0, 0, 1, 0, 1 << 4], b: [0, 0, 0, 1 << 56, 0, 1 << 60], ep: 0, rights: 0b0011 }, true, RMove { kind: 0, from: 4, to: 12, promo: 4 }),
        // 2: black rook a8xa1 (capture of a home rook)
        2 => (Raw { w: [0, 0, 0, 1, 0, 1 << 4], b: [0, 0, 0, 1 << 56, 0, 1 << 60], ep: 0, rights: 0b0011 }, false, RMove { kind: 0, from: 56, to: 0, promo: 4 }),
        // 3: white en passant e5xd6 (black pawn d7-d5 just played): Ke1 Pe5 vs Ke8 Pd5, target d6
        3 => (Raw { w: [1 << 36, 0, 0, 0, 0, 1 << 4], b: [1 << 35, 0, 0, 0, 0, 1 << 60], ep: 1 << 43, rights: 0 }, true, RMove { kind: 2, from: 36, to: 43, promo: 4 }),
        // 4: white O-O: Ke1 Rh1 vs Ke8
        4 => (Raw { w: [0, 0, 0, 1 << 7, 0, 1 << 4], b: [0, 0, 0, 0, 0, 1 << 60], ep: 0, rights: 0b1000 }, true, RMove { kind: 3, from: 4, to: 6, promo: 4 }),
        // 5: black promotion with capture b2xa1=N: Ke8 Pb2 vs Ke1 Ra1
        _ => (Raw { w: [0, 0, 0, 1, 0, 1 << 4], b: [1 << 9, 0, 0, 0, 0, 1 << 60], ep: 0, rights: 0b0010 }, false, RMove { kind: 1, from: 9, to: 0, promo: 1 }),
    }
}

fn c01_filter_fixed(case: u8) {
    let (x, white, m) = fixed_case(case);
    assert!(rf::rep_inv(&x, white) && rf::legalish(&x, white, &m), "the fixed case is a consistent position with a rules-shaped move");
    let a = Aux { ep_prefix: 0, rights_prefix: 15, half: [0, 3], full: 10, hash: 7, max_seen: [1, 1], turn_white: white };
    let mut board = Board::verif_from_raw(&x, &a);
    let em = engine_move(&x, white, &m);
    let att: u64 = crate::verif_ref::vany();
    kani_att::reset([att, 0, 0, 0]);
    let mut t = Targets::verif_blank();
    let mut cands = ChessMoveList::new();
    cands.push(em.clone());
    remove_invalid_moves(&mut cands, &mut board, color(white), &mut t);
    let want = rf::successor(&x, white, &m);
    assert!(kani_att::calls() == 1, "one attack-map request per candidate");
    assert!(kani_att::color_white(0) == !white, "attack map requested for the opponent");
    assert!(kani_att::board_occ(0) == want.occ(), "attack map requested on the position after the move");
    let king_after = want.own(white)[rf::K];
    let keep = att & king_after == 0;
    assert!(cands.len() == keep as usize, "candidate kept iff the mover's king is not attacked after the move");
    if keep {
        assert!(cands[0] == em, "the kept move is the candidate itself");
    }
    assert!(raw_eq(&board.verif_raw(), &x), "legality filtering leaves the board as found");
    assert!(board.verif_move_info().verif_depths() == (2, 2, 2) && board.halfmove_clock() == 3 && board.fullmove_clock() as u64 == 10);
    crate::vcover!(keep, "kept");
    crate::vcover!(!keep, "dropped");
    core::mem::forget(t);
    core::mem::forget(cands);
    core::mem::forget(board);
}

macro_rules! filter_fixed_harness {
    ($name:ident, $case:expr) => {
        #[kani::proof]
        #[kani::unwind(8)]
        #[kani::stub(::smallvec::SmallVec::reserve_one_unchecked, stub_no_spill)]
        #[kani::stub(::smallvec::SmallVec::spilled, crate::move_generator::verif_never_spilled)]
        #[kani::stub(::smallvec::SmallVec::try_grow, crate::move_generator::verif_no_grow)]
        #[kani::stub(crate::move_generator::targets::Targets::generate_attack_targets, crate::move_generator::targets::Targets::stub_attack)]
        #[kani::stub(::smallvec::SmallVec::append, crate::move_generator::VerifSv::append)]
        fn $name() {
            c01_filter_fixed($case);
        }
    };
}
filter_fixed_harness!(c01_filter_fixed_knight, 0);
filter_fixed_harness!(c01_filter_fixed_king, 1);
filter_fixed_harness!(c01_filter_fixed_capture, 2);
filter_fixed_harness!(c01_filter_fixed_ep, 3);
filter_fixed_harness!(c01_filter_fixed_castle, 4);
filter_fixed_harness!(c01_filter_fixed_promo, 5);

/// two capturing promotions onto the same square from both sides (black pawns d2, f2; white rook e1), with
/// independent symbolic attack maps: each candidate keeps its own verdict, all four promotions of a pawn
/// share it. Fixed position: the counterexample trace stays small enough to replay.
fn c01_filter_fixed_promo_pair() {
    // white: Ka4, Re1 ; black: Kh8, pawns d2, f2 ; black to move, no rights
    let x = Raw { w: [0, 0, 0, 1 << 4, 0, 1 << 24], b: [(1 << 11) | (1 << 13), 0, 0, 0, 0, 1 << 63], ep: 0, rights: 0 };
    assert!(rf::rep_inv(&x, false));
    let a = Aux { ep_prefix: 0, rights_prefix: 0, half: [0, 3], full: 10, hash: 7, max_seen: [1, 1], turn_white: false };
    let mut board = Board::verif_from_raw(&x, &a);
    let p1: u8 = crate::verif_ref::vany();
    let p2: u8 = crate::verif_ref::vany();
    kani::assume(p1 >= 1 && p1 <= 4 && p2 >= 1 && p2 <= 4);
    let m1 = RMove { kind: 1, from: 11, to: 4, promo: p1 as usize };
    let m2 = RMove { kind: 1, from: 13, to: 4, promo: p2 as usize };
    assert!(rf::legalish(&x, false, &m1) && rf::legalish(&x, false, &m2));
    let e1 = engine_move(&x, false, &m1);
    let e2 = engine_move(&x, false, &m2);
    let a1: u64 = crate::verif_ref::vany();
    let a2: u64 = crate::verif_ref::vany();
    kani_att::reset([a1, a2, 0, 0]);
    let mut t = Targets::verif_blank();
    let mut cands = ChessMoveList::new();
    cands.push(e1.clone());
    cands.push(e2.clone());
    remove_invalid_moves(&mut cands, &mut board, Color::Black, &mut t);
    let king = x.b[rf::K];
    let k1 = a1 & king == 0;
    let k2 = a2 & king == 0;
    assert!(kani_att::calls() == 2, "every candidate is tried on the board (no verdict is carried over from another candidate)");
    assert!(cands.len() == k1 as usize + k2 as usize, "each promotion candidate is kept or dropped on its own verdict");
    if k1 {
        assert!(cands[0] == e1);
    }
    if k2 {
        assert!(cands[k1 as usize] == e2);
    }
    assert!(raw_eq(&board.verif_raw(), &x));
    crate::vcover!(k1 && !k2, "first kept, second dropped");
    core::mem::forget(t);
    core::mem::forget(cands);
    core::mem::forget(board);
}
#[kani::proof]
#[kani::unwind(8)]
#[kani::stub(::smallvec::SmallVec::reserve_one_unchecked, stub_no_spill)]
#[kani::stub(::smallvec::SmallVec::spilled, crate::move_generator::verif_never_spilled)]
#[kani::stub(::smallvec::SmallVec::try_grow, crate::move_generator::verif_no_grow)]
#[kani::stub(crate::move_generator::targets::Targets::generate_attack_targets, crate::move_generator::targets::Targets::stub_attack)]
#[kani::stub(::smallvec::SmallVec::append, crate::move_generator::VerifSv::append)]
fn c01_filter_fixed_promo_pair_b() {
    c01_filter_fixed_promo_pair();
}

// ---- smallvec cost probes (experimental; not part of any check) ----------------------------------
fn sv_probe(which: u8) {
    let f: u8 = crate::verif_ref::vany();
    let t: u8 = crate::verif_ref::vany();
    kani::assume(f < 64 && t < 64);
    let m = ChessMove::Standard(StandardChessMove::new(Bitboard(rf::bit(f)), Bitboard(rf::bit(t)), None));
    let cond: bool = crate::verif_ref::vany();
    let mut v = ChessMoveList::new();
    if cond {
        v.push(m.clone());
    }
    match which {
        1 => {
            assert!(v.len() == cond as usize);
        }
        2 => {
            let mut w = ChessMoveList::new();
            w.append(&mut v);
            assert!(w.len() == cond as usize);
            core::mem::forget(w);
        }
        3 => {
            let mut n = 0;
            for x in v.drain(..) {
                if x.from_square().0 == rf::bit(f) {
                    n += 1;
                }
            }
            assert!(n == cond as usize);
        }
        _ => {
            // drain of a concrete-length list whose element is then conditionally pushed elsewhere (the filter's shape without apply/undo)
            let mut c = ChessMoveList::new();
            c.push(m.clone());
            let mut keep = ChessMoveList::new();
            for x in c.drain(..) {
                if cond {
                    keep.push(x);
                }
            }
            c.append(&mut keep);
            assert!(c.len() == cond as usize);
            core::mem::forget(c);
            core::mem::forget(keep);
        }
    }
    core::mem::forget(v);
}
macro_rules! sv_harness {
    ($name:ident, $w:expr) => {
        #[kani::proof]
        #[kani::unwind(8)]
        #[kani::stub(::smallvec::SmallVec::reserve_one_unchecked, stub_no_spill)]
        #[kani::stub(::smallvec::SmallVec::spilled, crate::move_generator::verif_never_spilled)]
        #[kani::stub(::smallvec::SmallVec::try_grow, crate::move_generator::verif_no_grow)]
        #[kani::stub(::smallvec::SmallVec::append, crate::move_generator::VerifSv::append)]
        fn $name() {
            sv_probe($w);
        }
    };
}
sv_harness!(sv_probe_1, 1);
sv_harness!(sv_probe_2, 2);
sv_harness!(sv_probe_3, 3);
sv_harness!(sv_probe_4, 4);

fn sv_probe2(which: u8) {
    let cond: bool = crate::verif_ref::vany();
    let a: u64 = crate::verif_ref::vany();
    match which {
        5 => {
            let mut v: PieceTargetList = smallvec![];
            if cond {
                v.push((Bitboard(a), Bitboard(!a)));
            }
            let mut n = 0;
            for x in v.drain(..) {
                if x.0 .0 == a {
                    n += 1;
                }
            }
            assert!(n == cond as usize);
            core::mem::forget(v);
        }
        6 => {
            let mut v: SmallVec<[u64; 32]> = SmallVec::new();
            if cond {
                v.push(a);
            }
            let mut n = 0;
            for x in v.drain(..) {
                if x == a {
                    n += 1;
                }
            }
            assert!(n == cond as usize);
            core::mem::forget(v);
        }
        7 => {
            // iterate by index instead of drain
            let f: u8 = crate::verif_ref::vany();
            kani::assume(f < 64);
            let m = ChessMove::Standard(StandardChessMove::new(Bitboard(rf::bit(f)), Bitboard(1), None));
            let mut v = ChessMoveList::new();
            if cond {
                v.push(m.clone());
            }
            let mut n = 0;
            for x in v.iter() {
                if x.from_square().0 == rf::bit(f) {
                    n += 1;
                }
            }
            assert!(n == cond as usize);
            core::mem::forget(v);
        }
        9 => {
            // into_iter().partition() over two moves with concrete destinations and symbolic origins
            let f: u8 = crate::verif_ref::vany();
            kani::assume(f < 64);
            let mut v = ChessMoveList::new();
            v.push(ChessMove::Standard(StandardChessMove::new(Bitboard(rf::bit(f)), Bitboard(1 << 20), None)));
            v.push(ChessMove::Standard(StandardChessMove::new(Bitboard(rf::bit(f)), Bitboard(1 << 59), None)));
            let (l, r): (ChessMoveList, ChessMoveList) = v.into_iter().partition(|m| !m.to_square().overlaps(Bitboard::RANK_8));
            assert!(l.len() == 1 && r.len() == 1);
            core::mem::forget(l);
            core::mem::forget(r);
        }
        _ => {
            // drain with a concrete length but symbolic CONTENT
            let f: u8 = crate::verif_ref::vany();
            kani::assume(f < 64);
            let m = ChessMove::Standard(StandardChessMove::new(Bitboard(rf::bit(f)), Bitboard(1), None));
            let mut v = ChessMoveList::new();
            v.push(m.clone());
            let mut n = 0;
            for x in v.drain(..) {
                if x.from_square().0 == rf::bit(f) {
                    n += 1;
                }
            }
            assert!(n == 1);
            core::mem::forget(v);
        }
    }
}
macro_rules! sv2_harness {
    ($name:ident, $w:expr) => {
        #[kani::proof]
        #[kani::unwind(8)]
        #[kani::stub(::smallvec::SmallVec::reserve_one_unchecked, stub_no_spill)]
        #[kani::stub(::smallvec::SmallVec::spilled, crate::move_generator::verif_never_spilled)]
        #[kani::stub(::smallvec::SmallVec::try_grow, crate::move_generator::verif_no_grow)]
        fn $name() {
            sv_probe2($w);
        }
    };
}
sv2_harness!(sv_probe_9, 9);
sv2_harness!(sv_probe_5, 5);
sv2_harness!(sv_probe_6, 6);
sv2_harness!(sv_probe_7, 7);
sv2_harness!(sv_probe_8, 8);
