//! /verif harnesses for property C11 (attack geometry tables). Child module of `magic_table`:
//! sees the private `MagicEntry` fields, `magic_index`, `slider_moves`, `make_table`, `try_offset`
//! and this build's generated `ROOK_MAGICS` / `BISHOP_MAGICS`.
#![allow(dead_code, unused_imports)]

use super::*;
use crate::verif_ref as rf;

const ROOK_DELTAS: [(i8, i8); 4] = [(1, 0), (0, -1), (-1, 0), (0, 1)];
const BISHOP_DELTAS: [(i8, i8); 4] = [(1, 1), (1, -1), (-1, -1), (-1, 1)];

/// M1 for one concrete square: for EVERY 64-bit occupancy `occ` and EVERY subset `b` of the mask,
/// if `b` lands in the slot that `occ` reads, then what make_table wrote for `b` (slider_moves) is the
/// reference attack set for `occ`. Also: the slot lies inside this square's segment.
fn m1_square(rook: bool, sq: u8) {
    let e = if rook { &ROOK_MAGICS[sq as usize] } else { &BISHOP_MAGICS[sq as usize] };
    let occ: u64 = crate::verif_ref::vany();
    let b: u64 = crate::verif_ref::vany();
    kani::assume(b & !e.mask == 0);
    let idx = magic_index(e, Bitboard(occ));
    if idx == magic_index(e, Bitboard(b)) {
        let deltas: &[(i8, i8)] = if rook { &ROOK_DELTAS } else { &BISHOP_DELTAS };
        let written = slider_moves(deltas, Bitboard(rf::bit(sq)), Bitboard(b));
        let want = if rook { rf::rook_attacks(sq, occ) } else { rf::bishop_attacks(sq, occ) };
        assert!(written.0 == want, "every writer of the slot an occupancy reads wrote that occupancy's true attack set");
    }
    let size = if rook { ROOK_TABLE_SIZE } else { BISHOP_TABLE_SIZE };
    let seg = 1usize << (64 - e.shift as u32);
    assert!(idx >= e.offset as usize && idx < e.offset as usize + seg, "index inside this square's segment");
    assert!(e.offset as usize + seg <= size, "segment inside the table");
    if sq < 63 {
        let n = if rook { &ROOK_MAGICS[sq as usize + 1] } else { &BISHOP_MAGICS[sq as usize + 1] };
        assert!(e.offset as usize + seg <= n.offset as usize, "segments of consecutive squares do not overlap");
    }
    // the mask really is a subset of the squares the rays can see, not including the square itself
    assert!(e.mask & rf::bit(sq) == 0);
}

macro_rules! m1_batch {
    ($name:ident, $rook:expr, $start:expr) => {
        #[kani::proof]
        #[kani::unwind(17)]
        fn $name() {
            let mut sq: u8 = $start;
            while sq < $start + 16 {
                m1_square($rook, sq);
                sq += 1;
            }
            crate::vcover!(true, "batch completed");
        }
    };
}
m1_batch!(m1_rook_00, true, 0);
m1_batch!(m1_rook_16, true, 16);
m1_batch!(m1_rook_32, true, 32);
m1_batch!(m1_rook_48, true, 48);
m1_batch!(m1_bishop_00, false, 0);
m1_batch!(m1_bishop_16, false, 16);
m1_batch!(m1_bishop_32, false, 32);
m1_batch!(m1_bishop_48, false, 48);

/// vacuity witness for the M1 shape
#[kani::proof]
#[kani::unwind(17)]
fn witness_m1() {
    let e = &ROOK_MAGICS[27];
    let occ: u64 = crate::verif_ref::vany();
    let b: u64 = crate::verif_ref::vany();
    kani::assume(b & !e.mask == 0);
    if magic_index(e, Bitboard(occ)) == magic_index(e, Bitboard(b)) {
        // the guarded comparison of m1_square is reachable
        assert!(false, "vacuity witness");
    }
}

/// M2: the ray walker that fills the tables equals the reference rays, for a symbolic square and a
/// symbolic blocker set (both delta sets; also shows rook / bishop deltas are not swapped).
#[kani::proof]
#[kani::unwind(9)]
fn m2_slider_moves_rook() {
    let sq: u8 = crate::verif_ref::vany();
    kani::assume(sq < 64);
    let b: u64 = crate::verif_ref::vany();
    // the walker is only ever called with blocker sets that exclude the slider's own square
    // (make_table enumerates subsets of the mask; M1 asserts the mask excludes the square)
    kani::assume(b & rf::bit(sq) == 0);
    let got = slider_moves(&ROOK_DELTAS, Bitboard(rf::bit(sq)), Bitboard(b));
    assert!(got.0 == rf::rook_attacks(sq, b), "slider_moves(rook deltas) == reference rook rays");
}

#[kani::proof]
#[kani::unwind(9)]
fn m2_slider_moves_bishop() {
    let sq: u8 = crate::verif_ref::vany();
    kani::assume(sq < 64);
    let b: u64 = crate::verif_ref::vany();
    kani::assume(b & rf::bit(sq) == 0);
    let got = slider_moves(&BISHOP_DELTAS, Bitboard(rf::bit(sq)), Bitboard(b));
    assert!(got.0 == rf::bishop_attacks(sq, b), "slider_moves(bishop deltas) == reference bishop rays");
}

/// M2b: the deltas MagicTable::default() passes to make_table are the rook / bishop ones, and the lookup
/// functions index the matching constant arrays: checked through the stand-ins used by other harnesses
/// (stub_rook / stub_bishop are the same expressions as in Default) against the reference.
#[kani::proof]
#[kani::unwind(9)]
fn m2_lookup_standins() {
    let sq: u8 = crate::verif_ref::vany();
    kani::assume(sq < 64);
    let b: u64 = crate::verif_ref::vany();
    kani::assume(b & rf::bit(sq) == 0);
    let t = MagicTable::verif_empty();
    assert!(t.stub_rook(Bitboard(rf::bit(sq)), Bitboard(b)).0 == rf::rook_attacks(sq, b));
    assert!(t.stub_bishop(Bitboard(rf::bit(sq)), Bitboard(b)).0 == rf::bishop_attacks(sq, b));
    core::mem::forget(t);
}

/// M3: the real make_table, run on a harness-supplied magic set: four representative squares
/// (corner a1, edge d1, next-to-edge b2, centre d4) get 2-bit masks on their rank, all other squares
/// an empty mask; the multiplier is symbolic. Afterwards every slot a subset of the mask indexes holds
/// slider_moves of SOME subset with that index (last writer wins cannot lose information), i.e. the
/// loop enumerates every subset, uses the entry of the right square and writes through magic_index.
#[kani::proof]
#[kani::unwind(66)]
fn m3_make_table_small() {
    let magic: u64 = crate::verif_ref::vany();
    let reps: [usize; 4] = [0, 3, 9, 27];
    let entries: [MagicEntry; 64] = core::array::from_fn(|i| {
        let is_rep = i == 0 || i == 3 || i == 9 || i == 27;
        let mask = if is_rep { (1u64 << (i + 1)) | (1u64 << (i + 2)) } else { 0 };
        let slot = if i == 0 { 0 } else if i == 3 { 1 } else if i == 9 { 2 } else if i == 27 { 3 } else { 4 };
        // non-representative squares: shift 63 keeps the index at 0 (mask 0 => hash 0); they share segment 4
        MagicEntry { mask, magic, shift: if is_rep { 62 } else { 63 }, offset: (slot * 4) as u32 }
    });
    let table = make_table(20, &ROOK_DELTAS, &entries);
    let which: usize = crate::verif_ref::vany();
    kani::assume(which < 4);
    let sq = reps[which];
    let b: u64 = crate::verif_ref::vany();
    kani::assume(b & !entries[sq].mask == 0);
    let idx = magic_index(&entries[sq], Bitboard(b));
    assert!(idx >= which * 4 && idx < which * 4 + 4);
    let got = table[idx];
    let m = entries[sq].mask;
    let mut found = false;
    let mut b2 = 0u64;
    let mut k = 0;
    while k < 4 {
        if magic_index(&entries[sq], Bitboard(b2)) == idx
            && slider_moves(&ROOK_DELTAS, Bitboard(1u64 << sq), Bitboard(b2)) == got
        {
            found = true;
        }
        b2 = b2.wrapping_sub(m) & m;
        k += 1;
    }
    assert!(found, "slot holds slider_moves of a subset with this index");
    core::mem::forget(table);
}

/// M3 (fixed-multiplier shape): the real make_table with a harness-supplied magic set -- 2-bit masks on the
/// rank of a1, d1, b2, d4 (multiplier 2^(61-sq): a perfect hash of the two mask bits), empty masks elsewhere.
/// Afterwards, for a symbolic representative square and a symbolic subset b of its mask, the slot b indexes
/// holds slider_moves(b): the fill loop visits EVERY subset (incl. the empty and the full one), uses the
/// entry of the right square, and writes through magic_index. With a symbolic multiplier CBMC can no longer
/// resolve the trip count of the subset loop (the entry is read through a pointer into an array that holds a
/// symbolic field) and unwinds every square 66 times: > 50 min, so the multiplier is concrete here.
#[kani::proof]
#[kani::unwind(66)]
fn m3_make_table_fixed() {
    let reps: [usize; 4] = [0, 3, 9, 27];
    let mut entries: [MagicEntry; 64] = [const { MagicEntry { mask: 0, magic: 0, shift: 63, offset: 16 } }; 64];
    let mut r = 0;
    while r < 4 {
        let sq = reps[r];
        entries[sq] = MagicEntry { mask: (1u64 << (sq + 1)) | (1u64 << (sq + 2)), magic: 1u64 << (61 - sq), shift: 62, offset: (r * 4) as u32 };
        r += 1;
    }
    let table = make_table(17, &ROOK_DELTAS, &entries);
    let which: usize = crate::verif_ref::vany();
    kani::assume(which < 4);
    let sq = reps[which];
    let b: u64 = crate::verif_ref::vany();
    kani::assume(b & !entries[sq].mask == 0);
    let idx = magic_index(&entries[sq], Bitboard(b));
    assert!(idx >= which * 4 && idx < which * 4 + 4, "index inside the square's segment");
    assert!(idx == which * 4 + ((b >> (sq + 1)) & 3) as usize, "the multiplier is a perfect hash of the two mask bits");
    let want = slider_moves(&ROOK_DELTAS, Bitboard(1u64 << sq), Bitboard(b));
    assert!(table[idx] == want, "the slot of every subset of the mask holds the attack set the walker computes for it");
    assert!(want.0 == rf::rook_attacks(sq as u8, b), "which is the reference ray set");
    core::mem::forget(table);
}
