//! /verif harnesses over evaluate/mod.rs (properties C06, C16 draw clause, C18).
//! Child module of `evaluate`: sees the private `player_material_score`, `is_endgame`, score constants.
#![allow(dead_code, unused_imports, static_mut_refs)]

use super::evaluation_tables::*;
use super::*;
use crate::board::kani_verif::*;
use crate::chess_move::chess_move::ChessMove;
use crate::chess_move::standard::StandardChessMove;
use crate::move_generator::ChessMoveList;
use crate::verif_ref as rf;
use crate::verif_ref::Raw;

/// stand-ins for the generator entry points used by the verdict functions
pub(crate) mod gstub {
    use super::*;
    pub static mut MOVES_EMPTY: bool = false;
    pub static mut GEN_CALLS: usize = 0;
    pub static mut GEN_PLAYER_WHITE: bool = false;
    pub static mut GEN_OCC: u64 = 0;
    pub static mut ATT: u64 = 0;
    pub static mut ATT_CALLS: usize = 0;
    pub static mut ATT_PLAYER_WHITE: bool = false;
    pub static mut ATT_OCC: u64 = 0;

    pub fn reset(moves_empty: bool, att: u64) {
        unsafe {
            MOVES_EMPTY = moves_empty;
            ATT = att;
            GEN_CALLS = 0;
            ATT_CALLS = 0;
        }
    }
    impl MoveGenerator {
        pub fn stub_generate_moves(&mut self, board: &mut Board, player: Color) -> ChessMoveList {
            unsafe {
                GEN_CALLS += 1;
                GEN_PLAYER_WHITE = player == Color::White;
                GEN_OCC = board.occupied().0;
                let mut l = ChessMoveList::new();
                if !MOVES_EMPTY {
                    l.push(ChessMove::Standard(StandardChessMove::new(Bitboard(1), Bitboard(2), None)));
                }
                l
            }
        }
        pub fn stub_get_attack_targets(&mut self, board: &Board, player: Color) -> Bitboard {
            unsafe {
                ATT_CALLS += 1;
                ATT_PLAYER_WHITE = player == Color::White;
                ATT_OCC = board.occupied().0;
                Bitboard(ATT)
            }
        }
    }
}

fn blank_generator() -> MoveGenerator {
    MoveGenerator::verif_blank()
}

// -------------------------------------------------------------------------------------------------
// C06.check: player_is_in_check(p) <=> p's king is in the attack map requested for p's OPPONENT on THIS board

fn c06_check(white: bool) {
    let x = any_disjoint();
    let a = any_aux(crate::verif_ref::vany());
    let board = Board::verif_from_raw(&x, &a);
    let att: u64 = crate::verif_ref::vany();
    gstub::reset(false, att);
    let mut mg = blank_generator();
    let r = player_is_in_check(&board, &mut mg, color(white));
    unsafe {
        assert!(gstub::ATT_CALLS == 1);
        assert!(gstub::ATT_PLAYER_WHITE == !white, "attack map requested for the opponent of the player asked about");
        assert!(gstub::ATT_OCC == x.occ(), "attack map requested on this board");
    }
    assert!(r == (att & x.own(white)[rf::K] != 0), "in check <=> king square is in the opponent's attack map");
    // current_player_is_in_check asks about the side to move
    gstub::reset(false, att);
    let r2 = current_player_is_in_check(&board, &mut mg);
    unsafe {
        assert!(gstub::ATT_PLAYER_WHITE == !a.turn_white);
    }
    assert!(r2 == (att & x.own(a.turn_white)[rf::K] != 0));
    core::mem::forget(mg);
    core::mem::forget(board);
}

macro_rules! gen_stubbed {
    ($name:ident, $unwind:expr, $body:expr) => {
        #[kani::proof]
        #[kani::unwind($unwind)]
        #[kani::stub(::smallvec::SmallVec::reserve_one_unchecked, crate::move_generator::verif_no_spill)]
        #[kani::stub(::smallvec::SmallVec::spilled, crate::move_generator::verif_never_spilled)]
        #[kani::stub(::smallvec::SmallVec::try_grow, crate::move_generator::verif_no_grow)]
        #[kani::stub(crate::move_generator::MoveGenerator::generate_moves, crate::move_generator::MoveGenerator::stub_generate_moves)]
        #[kani::stub(crate::move_generator::MoveGenerator::get_attack_targets, crate::move_generator::MoveGenerator::stub_get_attack_targets)]
        fn $name() {
            $body;
        }
    };
}
gen_stubbed!(c06_check_w, 8, c06_check(true));
gen_stubbed!(c06_check_b, 8, c06_check(false));

// -------------------------------------------------------------------------------------------------
// C06.ending / C16.draw: game_ending and player_is_in_checkmate

/// mode 0: verdict clauses (C06) with the counters below their thresholds; mode 1: move-count draw (C16)
fn ending(white: bool, mode: u8) {
    let x = any_disjoint();
    let mut a = any_aux(white);
    a.turn_white = white; // callers pass board.turn() as current_turn
    if mode == 0 {
        kani::assume(a.max_seen[1] != 3 && a.half[1] < 50);
    } else {
        kani::assume(a.max_seen[1] != 3);
    }
    let mut board = Board::verif_from_raw(&x, &a);
    let att: u64 = crate::verif_ref::vany();
    let empty: bool = crate::verif_ref::vany();
    gstub::reset(empty, att);
    let mut mg = blank_generator();
    let r = game_ending(&mut board, &mut mg, color(white));
    let check = att & x.own(white)[rf::K] != 0;
    if mode == 0 {
        unsafe {
            assert!(gstub::GEN_CALLS == 1 && gstub::GEN_PLAYER_WHITE == white && gstub::GEN_OCC == x.occ(), "legal moves requested for the side asked about, on this board");
            assert!(gstub::ATT_PLAYER_WHITE == !white && gstub::ATT_OCC == x.occ());
        }
        match r {
            Some(GameEnding::Checkmate) => assert!(empty && check, "checkmate only when in check with no legal move"),
            Some(GameEnding::Stalemate) => assert!(empty && !check, "stalemate only when not in check with no legal move"),
            Some(GameEnding::Draw) => assert!(false, "no draw below the thresholds"),
            None => assert!(!empty, "no verdict only when a legal move exists"),
        }
        assert!(r.is_some() == empty);
        // player_is_in_checkmate agrees
        gstub::reset(empty, att);
        let cm = player_is_in_checkmate(&mut board, &mut mg, color(white));
        assert!(cm == (empty && check), "player_is_in_checkmate <=> in check and no legal move");
        unsafe {
            assert!(gstub::GEN_PLAYER_WHITE == white && gstub::ATT_PLAYER_WHITE == !white);
        }
    } else {
        let drawn = matches!(r, Some(GameEnding::Draw));
        assert!(drawn == (a.half[1] >= 100), "drawn on move count exactly when the half-move clock has reached 100");
    }
    core::mem::forget(mg);
    core::mem::forget(board);
}
gen_stubbed!(c06_ending_w, 8, ending(true, 0));
gen_stubbed!(c06_ending_b, 8, ending(false, 0));
gen_stubbed!(c16_draw_w, 8, ending(true, 1));
gen_stubbed!(c16_draw_b, 8, ending(false, 1));

// -------------------------------------------------------------------------------------------------
// C18

fn mirror(x: &Raw) -> Raw {
    let mut w = [0u64; 6];
    let mut b = [0u64; 6];
    let mut i = 0;
    while i < 6 {
        w[i] = x.b[i].reverse_bits();
        b[i] = x.w[i].reverse_bits();
        i += 1;
    }
    Raw { w, b, ep: 0, rights: 0 }
}

fn plain_board(x: &Raw) -> Board {
    let a = Aux { ep_prefix: 0, rights_prefix: 0, half: [0, 0], full: 1, hash: 0, max_seen: [1, 1], turn_white: true };
    Board::verif_from_raw(x, &a)
}

/// C18.tab: the table identity that makes the evaluation colour-symmetric for any number of pieces
#[kani::proof]
#[kani::unwind(4)]
fn c18_tab() {
    let sq: usize = crate::verif_ref::vany();
    let k: usize = crate::verif_ref::vany();
    let e: usize = crate::verif_ref::vany();
    kani::assume(sq < 64 && k < 6 && e < 2);
    assert!(
        BONUS_TABLES[k][e][SQUARE_TO_WHITE_BONUS_INDEX[sq]] == BONUS_TABLES[k][e][SQUARE_TO_BLACK_BONUS_INDEX[63 - sq]],
        "bonus of a white piece on sq == bonus of a black piece on the 180-degree rotated square"
    );
    assert!(SQUARE_TO_WHITE_BONUS_INDEX[sq] < 64 && SQUARE_TO_BLACK_BONUS_INDEX[sq] < 64);
    // per-piece value bounds used by the arithmetic argument in c18_bound
    // (casts: the claim does not depend on the element type the tables are stored in)
    let v = MATERIAL_VALUES[k] as i32 + BONUS_TABLES[k][e][sq] as i32;
    assert!(v > 0 && v <= 20050);
}

/// C18.eg: the game-phase switch is colour-symmetric on a fully symbolic board
#[kani::proof]
#[kani::unwind(8)]
fn c18_eg() {
    let x = any_disjoint();
    let b1 = plain_board(&x);
    let b2 = plain_board(&mirror(&x));
    assert!(is_endgame(&b1) == is_endgame(&b2), "is_endgame(b) == is_endgame(mirror(b))");
    core::mem::forget(b1);
    core::mem::forget(b2);
}

/// C18.side: one fully symbolic side under the legal-material bound: no overflow (Kani's checks inside
/// the real summation loop) and 19000 <= value <= 30600
fn c18_side(white: bool) {
    let x = any_disjoint();
    let s = x.own(white);
    let ex = |n: u32, base: u32| if n > base { n - base } else { 0 };
    kani::assume(s[rf::K].count_ones() == 1);
    kani::assume(
        s[rf::P].count_ones() + ex(s[rf::Q].count_ones(), 1) + ex(s[rf::R].count_ones(), 2) + ex(s[rf::B].count_ones(), 2) + ex(s[rf::N].count_ones(), 2) <= 8
    );
    kani::assume(s[rf::P] & (rf::RANK_1 | rf::RANK_8) == 0);
    let board = plain_board(&x);
    let m = player_material_score(&board, color(white));
    assert!(m >= 19000 && m <= 30600, "per-side material+bonus stays within [19000, 30600] for any legal material");
    crate::vcover!(s[rf::Q].count_ones() == 9, "nine queens reachable");
    core::mem::forget(board);
}
#[kani::proof]
#[kani::unwind(66)]
fn c18_side_w() {
    c18_side(true);
}
#[kani::proof]
#[kani::unwind(66)]
fn c18_side_b() {
    c18_side(false);
}

/// C18.sym: score(b) == -score(mirror(b)) on boards with two kings and up to N further pieces
fn c18_sym(n: usize) {
    let mut w = [0u64; 6];
    let mut b = [0u64; 6];
    let wk: u8 = crate::verif_ref::vany();
    let bk: u8 = crate::verif_ref::vany();
    kani::assume(wk < 64 && bk < 64 && wk != bk);
    w[5] = rf::bit(wk);
    b[5] = rf::bit(bk);
    let mut occ = w[5] | b[5];
    let mut i = 0;
    while i < n {
        let present: bool = crate::verif_ref::vany();
        let sq: u8 = crate::verif_ref::vany();
        kani::assume(sq < 64);
        let kind: u8 = crate::verif_ref::vany();
        kani::assume(kind < 5);
        let white: bool = crate::verif_ref::vany();
        if present {
            kani::assume(occ & rf::bit(sq) == 0);
            occ |= rf::bit(sq);
            if white {
                w[kind as usize] |= rf::bit(sq);
            } else {
                b[kind as usize] |= rf::bit(sq);
            }
        }
        i += 1;
    }
    let x = Raw { w, b, ep: 0, rights: 0 };
    let b1 = plain_board(&x);
    let b2 = plain_board(&mirror(&x));
    let s1 = board_material_score(&b1);
    let s2 = board_material_score(&b2);
    assert!(s1 == -s2, "static score is exactly negated by colour swap + 180-degree rotation");
    core::mem::forget(b1);
    core::mem::forget(b2);
}
#[kani::proof]
#[kani::unwind(66)]
fn c18_sym_1() {
    c18_sym(1);
}
#[kani::proof]
#[kani::unwind(66)]
fn c18_sym_2() {
    c18_sym(2);
}

/// stand-in for game_ending in the mate-score harness
pub(crate) mod estub {
    use super::*;
    pub static mut ENDING: u8 = 0;
    pub fn game_ending(_b: &mut Board, _m: &mut MoveGenerator, _t: Color) -> Option<GameEnding> {
        unsafe {
            match ENDING {
                1 => Some(GameEnding::Checkmate),
                2 => Some(GameEnding::Stalemate),
                3 => Some(GameEnding::Draw),
                _ => None,
            }
        }
    }
}

/// C18.mate: mate scores dominate every static score, prefer the quicker mate, never overflow; stalemate is 0
#[kani::proof]
#[kani::unwind(8)]
#[kani::stub(crate::evaluate::game_ending, crate::evaluate::kani_verif::estub::game_ending)]
fn c18_mate() {
    let x = any_disjoint();
    let mut a = any_aux(crate::verif_ref::vany());
    kani::assume(a.max_seen[1] != 3);
    a.hash = 0;
    let mut board = Board::verif_from_raw(&x, &a);
    let mut mg = blank_generator();
    let d1: u8 = crate::verif_ref::vany();
    let d2: u8 = crate::verif_ref::vany();
    let white: bool = crate::verif_ref::vany();
    unsafe {
        estub::ENDING = 1;
    }
    let s1 = score(&mut board, &mut mg, color(white), d1);
    let s2 = score(&mut board, &mut mg, color(white), d2);
    // static scores are bounded by 30600 - 19000 = 11600 in magnitude (c18_side + c18_bound)
    if white {
        assert!(s1 < -11600 - 255, "being mated scores below every static score");
        assert!((d1 > d2) == (s1 < s2), "a mate found with more depth remaining scores strictly better for the mating side");
    } else {
        assert!(s1 > 11600 + 255);
        assert!((d1 > d2) == (s1 > s2));
    }
    unsafe {
        estub::ENDING = 2;
    }
    assert!(score(&mut board, &mut mg, color(white), d1) == 0, "stalemate scores zero");
    core::mem::forget(mg);
    core::mem::forget(board);
}

/// C18.bound: from the two per-side bounds the difference cannot overflow and stays below every mate score
#[kani::proof]
#[kani::unwind(4)]
fn c18_bound() {
    let wm: i16 = crate::verif_ref::vany();
    let bm: i16 = crate::verif_ref::vany();
    kani::assume(wm >= 19000 && wm <= 30600 && bm >= 19000 && bm <= 30600);
    let d = wm - bm; // the subtraction board_material_score performs; Kani checks it for overflow
    assert!(d >= -11600 && d <= 11600);
    assert!((d as i32) < (WHITE_WINS as i32) - 255 && (d as i32) > (BLACK_WINS as i32) + 255, "static magnitude strictly below every mate score");
    assert!(WHITE_WINS == i16::MAX / 2 && BLACK_WINS == i16::MIN / 2);
}

// vacuity witnesses
gen_stubbed!(witness_c06_ending_w, 8, {
    ending(true, 0);
    assert!(false, "vacuity witness");
});

#[kani::proof]
#[kani::unwind(8)]
fn witness_c18_eg() {
    c18_eg();
    assert!(false, "vacuity witness");
}

/// C06: player_is_in_checkmate depends on nothing but "no legal move" and "in check" -- in particular not on
/// the half-move clock or the repetition bookkeeping (all counter values symbolic here)
fn c06_checkmate(white: bool) {
    let x = any_disjoint();
    let a = any_aux(crate::verif_ref::vany());
    let mut board = Board::verif_from_raw(&x, &a);
    let att: u64 = crate::verif_ref::vany();
    let empty: bool = crate::verif_ref::vany();
    gstub::reset(empty, att);
    let mut mg = blank_generator();
    let cm = player_is_in_checkmate(&mut board, &mut mg, color(white));
    let check = att & x.own(white)[rf::K] != 0;
    assert!(cm == (empty && check), "checkmate <=> in check and no legal move, whatever the clocks and repetition counts say");
    unsafe {
        assert!(gstub::GEN_PLAYER_WHITE == white && gstub::GEN_OCC == x.occ(), "legal moves requested for the player asked about, on this board");
        assert!(gstub::ATT_PLAYER_WHITE == !white, "attack map requested for the opponent");
    }
    core::mem::forget(mg);
    core::mem::forget(board);
}
gen_stubbed!(c06_checkmate_w, 8, c06_checkmate(true));
gen_stubbed!(c06_checkmate_b, 8, c06_checkmate(false));
