//! /verif harnesses for property C19 (coordinate text read back): the classifier that turns an
//! external engine's reply into a move. Child module of `stockfish_elo`.
#![allow(dead_code, unused_imports)]

use super::*;
use crate::board::kani_verif::*;
use crate::verif_ref as rf;
use common::bitboard::bitboard::Bitboard;

/// arithmetic stand-in for common::bitboard::square::square_string_to_bitboard (which compiles a
/// regex::Regex per call -- not executable symbolically). NOT discharged: stated outside the claim.
fn stub_sq(coordinate: &str) -> Bitboard {
    let b = coordinate.as_bytes();
    Bitboard(1u64 << (((b[1] - b'1') * 8 + (b[0] - b'a')) & 63))
}

/// C19.cls: the standard long-coordinate text of a Legalish move of the given kind, read back in the
/// same position (side to move = mover), reconstructs exactly that move.
fn c19_cls(white: bool, kind: u8) {
    let x = any_repinv(white);
    let a = any_aux(white);
    let m = any_rmove(kind);
    kani::assume(rf::legalish(&x, white, &m));
    let board = Board::verif_from_raw(&x, &a);
    let want = engine_move(&x, white, &m);
    let mut bytes = Vec::with_capacity(5);
    bytes.push(b'a' + m.from % 8);
    bytes.push(b'1' + m.from / 8);
    bytes.push(b'a' + m.to % 8);
    bytes.push(b'1' + m.to / 8);
    if kind == 1 {
        bytes.push(match m.promo {
            1 => b'n',
            2 => b'b',
            3 => b'r',
            _ => b'q',
        });
    }
    let text = String::from_utf8(bytes).unwrap();
    let got = create_chess_move_from_uci(&text, &board);
    assert!(got == want, "reading the standard text back in the same position reconstructs exactly the move");
    match kind {
        0 => assert!(matches!(got, ChessMove::Standard(_))),
        1 => assert!(matches!(got, ChessMove::PawnPromotion(_))),
        2 => assert!(matches!(got, ChessMove::EnPassant(_))),
        _ => assert!(matches!(got, ChessMove::Castle(_))),
    }
    crate::vcover!(true, "classified");
    core::mem::forget(text);
    core::mem::forget(board);
}

macro_rules! cls_harness {
    ($name:ident, $white:expr, $kind:expr) => {
        #[kani::proof]
        #[kani::unwind(8)]
        #[kani::stub(common::bitboard::square::square_string_to_bitboard, stub_sq)]
        fn $name() {
            c19_cls($white, $kind);
        }
    };
}
cls_harness!(c19_cls_std_w, true, 0);
cls_harness!(c19_cls_std_b, false, 0);
cls_harness!(c19_cls_promo_w, true, 1);
cls_harness!(c19_cls_promo_b, false, 1);
cls_harness!(c19_cls_ep_w, true, 2);
cls_harness!(c19_cls_ep_b, false, 2);
cls_harness!(c19_cls_oo_w, true, 3);
cls_harness!(c19_cls_oo_b, false, 3);
cls_harness!(c19_cls_ooo_w, true, 4);
cls_harness!(c19_cls_ooo_b, false, 4);

// vacuity witness
#[kani::proof]
#[kani::unwind(8)]
#[kani::stub(common::bitboard::square::square_string_to_bitboard, stub_sq)]
fn witness_c19_cls_std_w() {
    c19_cls(true, 0);
    assert!(false, "vacuity witness");
}
