//! Independent reference rules of chess on raw `u64` bitboards (bit i = square i, a1 = 0, h8 = 63).
//! Injected by /verif at check time (`#[cfg(kani)]`), never compiled into the engine.
//! NOTHING in this file calls engine code: it is the oracle the engine is compared against.
//! Piece index order is the engine's `Piece as usize`: pawn 0, knight 1, bishop 2, rook 3, queen 4, king 5.
#![allow(dead_code)]

/// reachability cover used by the harnesses; compiled out when VERIF_NOCOVER is set at build time
/// (the replay step regenerates the counterexample without covers so that Kani's concrete playback
/// emits the test for the failing assertion rather than for a cover that precedes it)
#[macro_export]
macro_rules! vcover {
    ($($t:tt)*) => {
        if option_env!("VERIF_NOCOVER").is_none() {
            kani::cover!($($t)*);
        }
    };
}

pub const P: usize = 0;
pub const N: usize = 1;
pub const B: usize = 2;
pub const R: usize = 3;
pub const Q: usize = 4;
pub const K: usize = 5;

pub const FILE_A: u64 = 0x0101010101010101;
pub const FILE_H: u64 = 0x8080808080808080;
pub const RANK_1: u64 = 0xFF;
pub const RANK_2: u64 = 0xFF00;
pub const RANK_3: u64 = 0xFF0000;
pub const RANK_4: u64 = 0xFF000000;
pub const RANK_5: u64 = 0xFF00000000;
pub const RANK_6: u64 = 0xFF0000000000;
pub const RANK_7: u64 = 0xFF000000000000;
pub const RANK_8: u64 = 0xFF00000000000000;

// castling-rights bits as documented in castle_rights_bitmask.rs
pub const WK: u8 = 0b1000;
pub const BK: u8 = 0b0100;
pub const WQ: u8 = 0b0010;
pub const BQ: u8 = 0b0001;

pub const A1: u64 = 1 << 0;
pub const B1: u64 = 1 << 1;
pub const C1: u64 = 1 << 2;
pub const D1: u64 = 1 << 3;
pub const E1: u64 = 1 << 4;
pub const F1: u64 = 1 << 5;
pub const G1: u64 = 1 << 6;
pub const H1: u64 = 1 << 7;
pub const A8: u64 = 1 << 56;
pub const B8: u64 = 1 << 57;
pub const C8: u64 = 1 << 58;
pub const D8: u64 = 1 << 59;
pub const E8: u64 = 1 << 60;
pub const F8: u64 = 1 << 61;
pub const G8: u64 = 1 << 62;
pub const H8: u64 = 1 << 63;

#[inline(always)]
pub fn bit(i: u8) -> u64 {
    1u64 << (i & 63)
}

#[inline(always)]
pub fn one_hot(x: u64) -> bool {
    x != 0 && x & (x - 1) == 0
}

#[inline(always)]
pub fn at_most_one(x: u64) -> bool {
    x & x.wrapping_sub(1) == 0
}

/// The observable position: placement, current en-passant target, current castling rights.
#[derive(Clone, Copy)]
pub struct Raw {
    pub w: [u64; 6],
    pub b: [u64; 6],
    pub ep: u64,
    pub rights: u8,
}

pub fn occ6(s: &[u64; 6]) -> u64 {
    s[0] | s[1] | s[2] | s[3] | s[4] | s[5]
}

impl Raw {
    pub fn occ_w(&self) -> u64 {
        occ6(&self.w)
    }
    pub fn occ_b(&self) -> u64 {
        occ6(&self.b)
    }
    pub fn occ(&self) -> u64 {
        self.occ_w() | self.occ_b()
    }
    pub fn own(&self, white: bool) -> &[u64; 6] {
        if white {
            &self.w
        } else {
            &self.b
        }
    }
    pub fn opp(&self, white: bool) -> &[u64; 6] {
        if white {
            &self.b
        } else {
            &self.w
        }
    }
}

/// index of the piece kind standing on one-hot `sq` in `side`, 6 if none
pub fn kind_at(side: &[u64; 6], sq: u64) -> usize {
    if side[0] & sq != 0 {
        0
    } else if side[1] & sq != 0 {
        1
    } else if side[2] & sq != 0 {
        2
    } else if side[3] & sq != 0 {
        3
    } else if side[4] & sq != 0 {
        4
    } else if side[5] & sq != 0 {
        5
    } else {
        6
    }
}

/// every square holds at most one piece
pub fn disjoint(x: &Raw) -> bool {
    let mut acc = 0u64;
    let mut ok = true;
    let mut i = 0;
    while i < 6 {
        ok &= acc & x.w[i] == 0;
        acc |= x.w[i];
        ok &= acc & x.b[i] == 0;
        acc |= x.b[i];
        i += 1;
    }
    ok
}

/// "a castling right still held implies that king and that rook stand on their home squares"
pub fn rights_home(x: &Raw) -> bool {
    (x.rights & WK == 0 || (x.w[K] & E1 != 0 && x.w[R] & H1 != 0))
        && (x.rights & WQ == 0 || (x.w[K] & E1 != 0 && x.w[R] & A1 != 0))
        && (x.rights & BK == 0 || (x.b[K] & E8 != 0 && x.b[R] & H8 != 0))
        && (x.rights & BQ == 0 || (x.b[K] & E8 != 0 && x.b[R] & A8 != 0))
}

/// en-passant clause of the representation invariant. `last_mover_white`: colour of the side that made
/// the last move (i.e. the side NOT to move).
pub fn ep_consistent(x: &Raw, last_mover_white: bool) -> bool {
    if x.ep == 0 {
        return true;
    }
    if !one_hot(x.ep) {
        return false;
    }
    let occ = x.occ();
    if last_mover_white {
        // white pawn went rank 2 -> rank 4, target on rank 3
        x.ep & RANK_3 != 0 && x.w[P] & (x.ep << 8) != 0 && occ & x.ep == 0 && occ & (x.ep >> 8) == 0
    } else {
        x.ep & RANK_6 != 0 && x.b[P] & (x.ep >> 8) != 0 && occ & x.ep == 0 && occ & (x.ep << 8) == 0
    }
}

/// The representation invariant of property C12 on the observable position
/// (`white_to_move`: the side about to move).
pub fn rep_inv(x: &Raw, white_to_move: bool) -> bool {
    disjoint(x)
        && x.rights < 16
        && one_hot(x.w[K])
        && one_hot(x.b[K])
        && (x.w[P] | x.b[P]) & (RANK_1 | RANK_8) == 0
        && rights_home(x)
        && ep_consistent(x, !white_to_move)
        && x.occ_w().count_ones() <= 16
        && x.occ_b().count_ones() <= 16
}

// ------------------------------------------------------------------------------------------------
// geometry

/// squares strictly between f and t are empty, and f,t lie on a common rank/file (rook_like) or
/// diagonal (bishop_like). f != t.
pub fn slide_ok(f: u8, t: u8, occ: u64, rook_like: bool, bishop_like: bool) -> bool {
    let fr = (f / 8) as i8;
    let ff = (f % 8) as i8;
    let tr = (t / 8) as i8;
    let tf = (t % 8) as i8;
    let dr = tr - fr;
    let df = tf - ff;
    let straight = (dr == 0) != (df == 0);
    let diag = dr != 0 && (dr == df || dr == -df);
    if !((straight && rook_like) || (diag && bishop_like)) {
        return false;
    }
    let sr: i8 = if dr > 0 { 1 } else if dr < 0 { -1 } else { 0 };
    let sf: i8 = if df > 0 { 1 } else if df < 0 { -1 } else { 0 };
    let ar = if dr < 0 { -dr } else { dr };
    let af = if df < 0 { -df } else { df };
    let dist = if ar > af { ar } else { af };
    let mut ok = true;
    let mut k: i8 = 1;
    while k <= 6 {
        if k < dist {
            // strictly between f and t, hence on the board
            let r = fr + k * sr;
            let c = ff + k * sf;
            if occ & bit((r * 8 + c) as u8) != 0 {
                ok = false;
            }
        }
        k += 1;
    }
    ok
}

pub fn knight_jump(f: u8, t: u8) -> bool {
    let dr = (f / 8) as i8 - (t / 8) as i8;
    let df = (f % 8) as i8 - (t % 8) as i8;
    let ar = if dr < 0 { -dr } else { dr };
    let af = if df < 0 { -df } else { df };
    (ar == 1 && af == 2) || (ar == 2 && af == 1)
}

pub fn king_step(f: u8, t: u8) -> bool {
    let dr = (f / 8) as i8 - (t / 8) as i8;
    let df = (f % 8) as i8 - (t % 8) as i8;
    let ar = if dr < 0 { -dr } else { dr };
    let af = if df < 0 { -df } else { df };
    ar <= 1 && af <= 1 && (ar | af) != 0
}

/// one ray from `from` (exclusive) in direction (dr,df) up to and including the first occupied square
pub fn ray(from: u8, dr: i8, df: i8, occ: u64) -> u64 {
    let mut out = 0u64;
    let mut r = (from / 8) as i8;
    let mut f = (from % 8) as i8;
    let mut stop = false;
    let mut k = 0;
    while k < 7 {
        r += dr;
        f += df;
        if !stop && r >= 0 && r <= 7 && f >= 0 && f <= 7 {
            let s = bit((r * 8 + f) as u8);
            out |= s;
            if occ & s != 0 {
                stop = true;
            }
        } else {
            stop = true;
        }
        k += 1;
    }
    out
}

pub fn rook_attacks(sq: u8, occ: u64) -> u64 {
    ray(sq, 1, 0, occ) | ray(sq, -1, 0, occ) | ray(sq, 0, 1, occ) | ray(sq, 0, -1, occ)
}

pub fn bishop_attacks(sq: u8, occ: u64) -> u64 {
    ray(sq, 1, 1, occ) | ray(sq, -1, 1, occ) | ray(sq, 1, -1, occ) | ray(sq, -1, -1, occ)
}

pub fn knight_attacks(sq: u8) -> u64 {
    let r = (sq / 8) as i8;
    let f = (sq % 8) as i8;
    let d: [(i8, i8); 8] = [(1, 2), (2, 1), (-1, 2), (-2, 1), (1, -2), (2, -1), (-1, -2), (-2, -1)];
    let mut out = 0u64;
    let mut i = 0;
    while i < 8 {
        let rr = r + d[i].0;
        let ff = f + d[i].1;
        if rr >= 0 && rr < 8 && ff >= 0 && ff < 8 {
            out |= bit((rr * 8 + ff) as u8);
        }
        i += 1;
    }
    out
}

pub fn king_attacks(sq: u8) -> u64 {
    let r = (sq / 8) as i8;
    let f = (sq % 8) as i8;
    let d: [(i8, i8); 8] = [(1, 0), (1, 1), (0, 1), (-1, 1), (-1, 0), (-1, -1), (0, -1), (1, -1)];
    let mut out = 0u64;
    let mut i = 0;
    while i < 8 {
        let rr = r + d[i].0;
        let ff = f + d[i].1;
        if rr >= 0 && rr < 8 && ff >= 0 && ff < 8 {
            out |= bit((rr * 8 + ff) as u8);
        }
        i += 1;
    }
    out
}

/// squares attacked by a pawn of the given colour standing on sq (its two forward diagonals)
pub fn pawn_attacks(sq: u8, white: bool) -> u64 {
    let r = (sq / 8) as i8;
    let f = (sq % 8) as i8;
    let rr = if white { r + 1 } else { r - 1 };
    let mut out = 0u64;
    if rr >= 0 && rr < 8 {
        if f >= 1 {
            out |= bit((rr * 8 + f - 1) as u8);
        }
        if f <= 6 {
            out |= bit((rr * 8 + f + 1) as u8);
        }
    }
    out
}

/// is square `s` attacked by a piece of colour `by_white` in position x (occupancy = all pieces)?
/// Written "from the target outwards" so it needs no loop over the attacker's pieces.
pub fn attacked(x: &Raw, by_white: bool, s: u8) -> bool {
    let a = x.own(by_white);
    let occ = x.occ();
    // a pawn of the attacker attacks s iff it stands on a square from which s is a forward diagonal,
    // i.e. on one of the squares a pawn of the OTHER colour on s would attack
    let pawn_src = pawn_attacks(s, !by_white);
    (pawn_src & a[P] != 0)
        || (knight_attacks(s) & a[N] != 0)
        || (king_attacks(s) & a[K] != 0)
        || (rook_attacks(s, occ) & (a[R] | a[Q]) != 0)
        || (bishop_attacks(s, occ) & (a[B] | a[Q]) != 0)
}

/// the set of squares attacked by colour `by_white` restricted to `mask` bits — as a predicate per bit.
/// (No 64-iteration loop here on purpose: callers pick a symbolic square.)
pub fn king_attacked(x: &Raw, king_white: bool) -> bool {
    let k = x.own(king_white)[K];
    if !one_hot(k) {
        return false;
    }
    attacked(x, !king_white, k.trailing_zeros() as u8)
}

// ------------------------------------------------------------------------------------------------
// moves

/// A move in reference form. kind: 0 standard, 1 promotion, 2 en passant, 3 castle king side, 4 castle queen side.
#[derive(Clone, Copy)]
pub struct RMove {
    pub kind: u8,
    pub from: u8,
    pub to: u8,
    /// promotion piece index (N,B,R,Q) for kind 1
    pub promo: usize,
}

/// Pseudo-legal ("Legalish") test: the move has the shape the rules allow for `white` to move in x,
/// not regarding whether the mover's own king is left in check, and never capturing a king.
/// Castling here requires only right + empty squares + pieces at home (check conditions are separate).
pub fn legalish(x: &Raw, white: bool, m: &RMove) -> bool {
    if m.from >= 64 || m.to >= 64 || m.from == m.to {
        return false;
    }
    let own = x.own(white);
    let opp = x.opp(white);
    let own_occ = occ6(own);
    let opp_occ = occ6(opp);
    let occ = own_occ | opp_occ;
    let f = bit(m.from);
    let t = bit(m.to);
    let fr = m.from / 8;
    let ff = m.from % 8;
    let tr = m.to / 8;
    let tf = m.to % 8;
    match m.kind {
        0 | 1 => {
            if own_occ & f == 0 || own_occ & t != 0 || opp[K] & t != 0 {
                return false;
            }
            let k = kind_at(own, f);
            let is_capture = opp_occ & t != 0;
            let last = if white { tr == 7 } else { tr == 0 };
            if m.kind == 1 {
                if k != P || !last {
                    return false;
                }
                if !(m.promo == N || m.promo == B || m.promo == R || m.promo == Q) {
                    return false;
                }
            }
            match k {
                0 => {
                    if m.kind == 0 && last {
                        return false; // reaching the last rank is a promotion, not a standard move
                    }
                    let fwd1 = if white { tr == fr + 1 } else { fr == tr + 1 };
                    let fwd2 = if white { fr == 1 && tr == 3 } else { fr == 6 && tr == 4 };
                    let mid = if white { bit(m.from + 8) } else { bit(m.from.wrapping_sub(8)) };
                    if tf == ff {
                        !is_capture && (fwd1 || (fwd2 && occ & mid == 0))
                    } else {
                        let adj = tf + 1 == ff || ff + 1 == tf;
                        fwd1 && adj && is_capture
                    }
                }
                1 => knight_jump(m.from, m.to),
                2 => slide_ok(m.from, m.to, occ, false, true),
                3 => slide_ok(m.from, m.to, occ, true, false),
                4 => slide_ok(m.from, m.to, occ, true, true),
                5 => king_step(m.from, m.to),
                _ => false,
            }
        }
        2 => {
            // en passant: own pawn diagonally behind the target, target is the current ep square
            if x.ep == 0 || t != x.ep || own[P] & f == 0 {
                return false;
            }
            let fwd1 = if white { tr == fr + 1 } else { fr == tr + 1 };
            let adj = tf + 1 == ff || ff + 1 == tf;
            fwd1 && adj
        }
        3 => {
            if white {
                m.from == 4 && m.to == 6 && x.rights & WK != 0 && occ & (F1 | G1) == 0 && own[K] & E1 != 0 && own[R] & H1 != 0
            } else {
                m.from == 60 && m.to == 62 && x.rights & BK != 0 && occ & (F8 | G8) == 0 && own[K] & E8 != 0 && own[R] & H8 != 0
            }
        }
        4 => {
            if white {
                m.from == 4 && m.to == 2 && x.rights & WQ != 0 && occ & (B1 | C1 | D1) == 0 && own[K] & E1 != 0 && own[R] & A1 != 0
            } else {
                m.from == 60 && m.to == 58 && x.rights & BQ != 0 && occ & (B8 | C8 | D8) == 0 && own[K] & E8 != 0 && own[R] & A8 != 0
            }
        }
        _ => false,
    }
}

/// kind of enemy piece captured by m (6 if none); for en passant: pawn.
pub fn captured_kind(x: &Raw, white: bool, m: &RMove) -> usize {
    match m.kind {
        0 | 1 => kind_at(x.opp(white), bit(m.to)),
        2 => P,
        _ => 6,
    }
}

/// The rules' successor position (placement, ep target, rights) of a Legalish move.
pub fn successor(x: &Raw, white: bool, m: &RMove) -> Raw {
    let mut own = *x.own(white);
    let mut opp = *x.opp(white);
    let f = bit(m.from);
    let t = bit(m.to);
    let mut ep = 0u64;
    let mut lost = 0u8;
    match m.kind {
        0 | 1 => {
            let k = kind_at(&own, f);
            let c = kind_at(&opp, t);
            if c < 6 {
                opp[c] &= !t;
            }
            if k < 6 {
                own[k] &= !f;
                let nk = if m.kind == 1 { m.promo } else { k };
                own[nk] |= t;
            }
            if k == P {
                let dbl = if white { m.from / 8 == 1 && m.to / 8 == 3 } else { m.from / 8 == 6 && m.to / 8 == 4 };
                if dbl {
                    ep = if white { f << 8 } else { f >> 8 };
                }
            }
            // rights lost: king or home rook moves
            if white {
                if k == K && f == E1 {
                    lost |= WK | WQ;
                }
                if k == R && f == H1 {
                    lost |= WK;
                }
                if k == R && f == A1 {
                    lost |= WQ;
                }
                // home rook captured
                if c == R && t == H8 {
                    lost |= BK;
                }
                if c == R && t == A8 {
                    lost |= BQ;
                }
            } else {
                if k == K && f == E8 {
                    lost |= BK | BQ;
                }
                if k == R && f == H8 {
                    lost |= BK;
                }
                if k == R && f == A8 {
                    lost |= BQ;
                }
                if c == R && t == H1 {
                    lost |= WK;
                }
                if c == R && t == A1 {
                    lost |= WQ;
                }
            }
        }
        2 => {
            own[P] = (own[P] & !f) | t;
            let victim = if white { t >> 8 } else { t << 8 };
            opp[P] &= !victim;
        }
        3 | 4 => {
            let (kf, kt, rf, rt) = match (white, m.kind == 3) {
                (true, true) => (E1, G1, H1, F1),
                (true, false) => (E1, C1, A1, D1),
                (false, true) => (E8, G8, H8, F8),
                (false, false) => (E8, C8, A8, D8),
            };
            own[K] = (own[K] & !kf) | kt;
            own[R] = (own[R] & !rf) | rt;
            lost = if white { WK | WQ } else { BK | BQ };
        }
        _ => {}
    }
    let (w, b) = if white { (own, opp) } else { (opp, own) };
    Raw { w, b, ep, rights: x.rights & !lost }
}

/// does the move reset the fifty-move counter (capture or pawn move)?
pub fn resets_clock(x: &Raw, white: bool, m: &RMove) -> bool {
    match m.kind {
        0 | 1 => kind_at(x.own(white), bit(m.from)) == P || kind_at(x.opp(white), bit(m.to)) < 6,
        2 => true,
        _ => false,
    }
}

/// Legal = Legalish, own king not attacked afterwards, and for castling: king not in check now and the
/// transit square not attacked.
pub fn legal(x: &Raw, white: bool, m: &RMove) -> bool {
    if !legalish(x, white, m) {
        return false;
    }
    if m.kind == 3 || m.kind == 4 {
        let (ksq, transit) = match (white, m.kind == 3) {
            (true, true) => (4u8, 5u8),
            (true, false) => (4, 3),
            (false, true) => (60, 61),
            (false, false) => (60, 59),
        };
        if attacked(x, !white, ksq) || attacked(x, !white, transit) {
            return false;
        }
    }
    let s = successor(x, white, m);
    !king_attacked(&s, white)
}

// ------------------------------------------------------------------------------------------------
// Harness inputs. Under Kani `vany()` is `kani::any()` (FUZZ_ON is a constant false there). In the
// native replay fallback (lib/replay.py: "sparse-mutation search") the same harness is executed natively
// with FUZZ_ON set and every input read from a byte stream, to find a native run that trips the
// assertion the solver refuted when Kani's own concrete playback cannot render the trace in time.

pub static mut FUZZ_ON: bool = false;
pub static mut FUZZ_BYTES: Vec<u8> = Vec::new();
pub static mut FUZZ_POS: usize = 0;

#[allow(static_mut_refs)]
fn fuzz_byte() -> u8 {
    unsafe {
        let b = if FUZZ_POS < FUZZ_BYTES.len() { FUZZ_BYTES[FUZZ_POS] } else { 0 };
        FUZZ_POS += 1;
        b
    }
}

pub trait FuzzRead: Sized {
    fn fuzz_read() -> Self;
}
macro_rules! fuzz_int {
    ($($t:ty),*) => {$(
        impl FuzzRead for $t {
            fn fuzz_read() -> Self {
                let mut v: $t = 0;
                let mut i = 0;
                while i < core::mem::size_of::<$t>() {
                    v |= (fuzz_byte() as $t) << (8 * i);
                    i += 1;
                }
                v
            }
        }
    )*};
}
fuzz_int!(u8, u16, u32, u64, usize);
impl FuzzRead for i16 {
    fn fuzz_read() -> Self {
        u16::fuzz_read() as i16
    }
}
impl FuzzRead for bool {
    fn fuzz_read() -> Self {
        fuzz_byte() & 1 == 1
    }
}
impl<T: FuzzRead + Copy + Default, const N: usize> FuzzRead for [T; N] {
    fn fuzz_read() -> Self {
        let mut a = [T::default(); N];
        let mut i = 0;
        while i < N {
            a[i] = T::fuzz_read();
            i += 1;
        }
        a
    }
}
impl<A: FuzzRead, B: FuzzRead> FuzzRead for (A, B) {
    fn fuzz_read() -> Self {
        let a = A::fuzz_read();
        let b = B::fuzz_read();
        (a, b)
    }
}
impl<A: FuzzRead, B: FuzzRead, C: FuzzRead> FuzzRead for (A, B, C) {
    fn fuzz_read() -> Self {
        let a = A::fuzz_read();
        let b = B::fuzz_read();
        let c = C::fuzz_read();
        (a, b, c)
    }
}

#[inline(always)]
pub fn vany<T: kani::Arbitrary + FuzzRead>() -> T {
    if unsafe { FUZZ_ON } {
        T::fuzz_read()
    } else {
        kani::any()
    }
}

/// native fallback driver (test builds only): run harness `h` on `tries` sparse byte streams; panic with
/// the reproduced message as soon as a run trips one of `needles`.
#[cfg(test)]
#[allow(static_mut_refs)]
pub fn fuzz_drive(h: fn(), needles: &[&str], tries: usize) {
    use std::panic;
    let seed: u64 = std::env::var("VERIF_SEED").ok().and_then(|s| s.parse().ok()).unwrap_or(0);
    let mut st: u64 = 0x9E3779B97F4A7C15 ^ seed.wrapping_mul(0xD1B54A32D192ED03);
    let mut rnd = move || {
        st ^= st << 13;
        st ^= st >> 7;
        st ^= st << 17;
        st
    };
    let prev = panic::take_hook();
    panic::set_hook(Box::new(|_| {}));
    let vals: [u8; 12] = [1, 2, 4, 8, 16, 32, 64, 128, 255, 3, 15, 7];
    let mut found: Option<(usize, String, Vec<u8>)> = None;
    let mut k = 0;
    while k < tries && found.is_none() {
        let mut bytes = vec![0u8; 2048];
        if k % 2 == 1 {
            // position mode: a consistent random position, auxiliary state and rules-shaped move candidates, laid out in the
            // order the board harnesses read them (Raw: w[6] b[6] ep rights | turn | ep_prefix rights_prefix half[2] full hash
            // max_seen[2] | (from to promo) x 3 | random tail)
            let wtm = (k / 2) % 2 == 0;
            let (w, b, ep, rights) = fuzz_position(&mut rnd, wtm);
            let mut o = 0;
            for v in w.iter().chain(b.iter()) {
                bytes[o..o + 8].copy_from_slice(&v.to_le_bytes());
                o += 8;
            }
            bytes[o..o + 8].copy_from_slice(&ep.to_le_bytes());
            o += 8;
            bytes[o] = rights;
            o += 1;
            bytes[o] = rnd() as u8; // turn flag
            o += 1;
            let epp: u64 = if rnd() % 3 == 0 { 1u64 << (rnd() % 64) } else { 0 };
            bytes[o..o + 8].copy_from_slice(&epp.to_le_bytes());
            o += 8;
            bytes[o] = rights | (rnd() % 16) as u8;
            o += 1;
            bytes[o] = rnd() as u8;
            bytes[o + 1] = if rnd() % 4 == 0 { (rnd() % 200) as u8 } else { (rnd() % 8) as u8 };
            o += 2;
            let full: u32 = if rnd() % 4 == 0 { (rnd() % 100_000) as u32 } else { (rnd() % 200) as u32 + 1 };
            bytes[o..o + 4].copy_from_slice(&full.to_le_bytes());
            o += 4;
            bytes[o..o + 8].copy_from_slice(&rnd().to_le_bytes());
            o += 8;
            bytes[o] = 1;
            bytes[o + 1] = 1 + (rnd() % 3) as u8;
            o += 2;
            let occ_w = occ6(&w);
            let occ_b = occ6(&b);
            for _ in 0..3 {
                let mover_white = if rnd() % 4 == 0 { !wtm } else { wtm };
                let own = if mover_white { occ_w } else { occ_b };
                // origin: a random own piece
                let mut from = (rnd() % 64) as u8;
                let mut tries = 0;
                while own & bit(from) == 0 && tries < 64 {
                    from = (from + 1) % 64;
                    tries += 1;
                }
                let r = rnd();
                let mut to = ((r >> 8) % 64) as u8;
                match r % 6 {
                    0 => {
                        let c = [(4u8, 6u8), (4, 2), (60, 62), (60, 58)][((r >> 16) % 4) as usize];
                        from = c.0;
                        to = c.1;
                    }
                    1 if ep != 0 => {
                        to = ep.trailing_zeros() as u8;
                        let d: i16 = if wtm { -8 } else { 8 };
                        let side: i16 = if (r >> 16) % 2 == 0 { -1 } else { 1 };
                        from = ((to as i16 + d + side) & 63) as u8;
                    }
                    2 | 3 => {
                        // a short step from the origin (king / pawn / knight shapes)
                        let deltas: [i16; 18] = [8, -8, 1, -1, 7, -7, 9, -9, 16, -16, 6, -6, 10, -10, 15, -15, 17, -17];
                        to = ((from as i16 + deltas[((r >> 16) % 18) as usize]) & 63) as u8;
                    }
                    _ => {}
                }
                bytes[o] = from;
                bytes[o + 1] = to;
                bytes[o + 2] = 1 + ((r >> 24) % 4) as u8;
                o += 3;
            }
            for b in bytes[o..].iter_mut() {
                *b = rnd() as u8;
            }
            if rnd() % 3 == 0 {
                // sparse tail (attack maps etc. mostly empty)
                for b in bytes[o..].iter_mut() {
                    if rnd() % 8 != 0 {
                        *b = 0;
                    }
                }
            }
        } else {
        match (k / 2) % 8 {
            5 => {
                for b in bytes.iter_mut() {
                    *b = rnd() as u8;
                }
            }
            6 | 7 => {
                {
                    // small-value sparse: every byte independently non-zero with probability 1/den, values mostly below 8
                    // (indices, flags and kinds stay in range, bitboards stay sparse and mostly disjoint)
                    let den = [2u64, 3, 4, 6, 8, 12][(rnd() % 6) as usize];
                    for b in bytes.iter_mut() {
                        let r = rnd();
                        if r % den == 0 {
                            *b = match (r >> 8) % 4 {
                                0 => (r >> 16) as u8,
                                1 => 1u8 << ((r >> 16) % 8),
                                _ => ((r >> 16) % 8) as u8,
                            };
                        }
                    }
                }
            }
            3 | 4 => {
                let mut w = 0;
                while w < 256 {
                    if rnd() % 8 == 0 {
                        bytes[w * 8 + (rnd() % 8) as usize] = 1u8 << (rnd() % 8);
                    }
                    w += 1;
                }
            }
            _ => {
                let events = [1usize, 2, 3, 5, 8, 13, 21, 40][(rnd() % 8) as usize];
                for _ in 0..events {
                    let span = if rnd() % 10 < 7 { 320 } else { 2048 };
                    let p = (rnd() % span) as usize;
                    let r = rnd();
                    bytes[p] = if r % 4 == 0 { (r >> 8) as u8 } else { vals[((r >> 8) % 12) as usize] };
                }
            }
        }
        }
        unsafe {
            FUZZ_ON = true;
            FUZZ_BYTES = bytes.clone();
            FUZZ_POS = 0;
        }
        let r = panic::catch_unwind(|| h());
        let used = unsafe { FUZZ_POS };
        unsafe {
            FUZZ_ON = false;
        }
        if let Err(e) = r {
            let msg = if let Some(s) = e.downcast_ref::<&str>() { s.to_string() } else if let Some(s) = e.downcast_ref::<String>() { s.clone() } else { String::new() };
            if needles.iter().any(|n| msg.contains(n)) {
                bytes.truncate(used.min(2048));
                found = Some((k, msg, bytes));
            }
        }
        k += 1;
    }
    panic::set_hook(prev);
    match found {
        Some((k, msg, bytes)) => {
            let hex: String = bytes.iter().map(|b| format!("{:02x}", b)).collect();
            println!("FUZZ-REPRODUCED try={} msg={:?}", k, msg);
            println!("FUZZ-BYTES {}", hex);
            panic!("reproduced natively: {}", msg);
        }
        None => println!("FUZZ-NOT-REPRODUCED after {} tries", tries),
    }
}

/// a random position satisfying the representation invariant (kings, <= 12 further pieces, pawns off the back ranks,
/// rights only with king and rook at home, en-passant target consistent with the side that just moved)
#[cfg(test)]
fn fuzz_position(rnd: &mut dyn FnMut() -> u64, white_to_move: bool) -> ([u64; 6], [u64; 6], u64, u8) {
    let mut w = [0u64; 6];
    let mut b = [0u64; 6];
    let home = rnd() % 3 != 0;
    let wk: u8 = if home { 4 } else { (rnd() % 64) as u8 };
    let mut bk: u8 = if home { 60 } else { (rnd() % 64) as u8 };
    if bk == wk {
        bk = (wk + 17) % 64;
    }
    w[K] = bit(wk);
    b[K] = bit(bk);
    let mut occ = w[K] | b[K];
    let mut rights = 0u8;
    if home {
        for (sq, white, flag) in [(7u8, true, WK), (0, true, WQ), (63, false, BK), (56, false, BQ)] {
            if rnd() % 2 == 0 {
                if white {
                    w[R] |= bit(sq);
                } else {
                    b[R] |= bit(sq);
                }
                occ |= bit(sq);
                if rnd() % 4 != 0 {
                    rights |= flag;
                }
            }
        }
    }
    let n = rnd() % 13;
    for _ in 0..n {
        let r = rnd();
        let kind = (r % 5) as usize;
        let white = (r >> 8) % 2 == 0;
        let mut sq = ((r >> 16) % 64) as u8;
        if kind == P {
            let rank = match (r >> 24) % 4 {
                0 => if white { 6 } else { 1 },
                1 => if white { 3 } else { 4 },
                _ => 1 + ((r >> 32) % 6) as u8,
            };
            sq = rank * 8 + sq % 8;
        }
        if occ & bit(sq) != 0 {
            continue;
        }
        occ |= bit(sq);
        if white {
            w[kind] |= bit(sq);
        } else {
            b[kind] |= bit(sq);
        }
    }
    // en-passant target: the pawn of the side that just moved stands on its 4th rank with both squares behind it empty
    let mut ep = 0u64;
    if rnd() % 5 < 2 {
        let f = (rnd() % 8) as u8;
        if white_to_move {
            let (p, mid, orig) = (bit(32 + f), bit(40 + f), bit(48 + f));
            if occ & (mid | orig) == 0 && (b[P] & p != 0 || occ & p == 0) {
                b[P] |= p;
                ep = mid;
            }
        } else {
            let (p, mid, orig) = (bit(24 + f), bit(16 + f), bit(8 + f));
            if occ & (mid | orig) == 0 && (w[P] & p != 0 || occ & p == 0) {
                w[P] |= p;
                ep = mid;
            }
        }
    }
    (w, b, ep, rights)
}

/// replay of a recorded byte stream (bin/replay for fuzz-found counterexamples)
#[cfg(test)]
#[allow(static_mut_refs)]
pub fn fuzz_run_bytes(h: fn(), hex: &str) {
    let mut bytes = Vec::new();
    let hb = hex.as_bytes();
    let mut i = 0;
    while i + 1 < hb.len() {
        bytes.push(u8::from_str_radix(&hex[i..i + 2], 16).unwrap());
        i += 2;
    }
    unsafe {
        FUZZ_ON = true;
        FUZZ_BYTES = bytes;
        FUZZ_POS = 0;
    }
    h();
}
