//! /verif harnesses over the board state machine (injected at check time, `#[cfg(kani)]`).
//! Child module of `board`: sees `Board`'s private fields; uses the `verif_*` hooks appended to
//! piece_set.rs / move_info.rs / position_info.rs for the nested private state.
#![allow(dead_code, unused_imports)]

use super::position_info::kani_ghost;
use super::position_info::{
    ZOBRIST_CASTLING_RIGHTS_TABLE, ZOBRIST_EN_PASSANT_TABLE, ZOBRIST_PIECES_TABLE,
};
use super::*;
use crate::chess_move::capture::Capture;
use crate::chess_move::castle::CastleChessMove;
use crate::chess_move::chess_move::ChessMove;
use crate::chess_move::en_passant::EnPassantChessMove;
use crate::chess_move::pawn_promotion::PawnPromotionChessMove;
use crate::chess_move::standard::StandardChessMove;
use crate::verif_ref as rf;
use crate::verif_ref::{RMove, Raw};

// -------------------------------------------------------------------------------------------------
// symbolic state construction

/// everything in the board that is not the observable position
#[derive(Clone, Copy)]
pub struct Aux {
    pub ep_prefix: u64,
    pub rights_prefix: u8,
    pub half: [u8; 2],
    pub full: u32,
    pub hash: u64,
    pub max_seen: [u8; 2],
    pub turn_white: bool,
}

impl Board {
    pub(crate) fn verif_from_raw(x: &Raw, a: &Aux) -> Self {
        Board {
            white: PieceSet::verif_from_raw(x.w),
            black: PieceSet::verif_from_raw(x.b),
            turn: if a.turn_white { Color::White } else { Color::Black },
            move_info: MoveInfo::verif_from_raw(
                [a.ep_prefix, x.ep],
                [a.rights_prefix, x.rights],
                a.half,
                a.full,
            ),
            position_info: PositionInfo::verif_from_raw(a.hash, a.max_seen),
            ..Default::default()
        }
    }

    /// the observable position as raw integers
    pub(crate) fn verif_raw(&self) -> Raw {
        let (w, _) = self.white.verif_raw();
        let (b, _) = self.black.verif_raw();
        Raw {
            w,
            b,
            ep: self.peek_en_passant_target().0,
            rights: self.peek_castle_rights(),
        }
    }

    pub(crate) fn verif_summaries(&self) -> (u64, u64) {
        (self.white.verif_raw().1, self.black.verif_raw().1)
    }

    pub(crate) fn verif_move_info(&self) -> &MoveInfo {
        &self.move_info
    }

    pub(crate) fn verif_position_info(&self) -> &PositionInfo {
        &self.position_info
    }
}

pub fn color(white: bool) -> Color {
    if white {
        Color::White
    } else {
        Color::Black
    }
}

pub fn piece_of(k: usize) -> Piece {
    Piece::from_usize(k)
}

/// arbitrary observable position (no assumptions)
pub fn any_raw() -> Raw {
    Raw {
        w: crate::verif_ref::vany(),
        b: crate::verif_ref::vany(),
        ep: crate::verif_ref::vany(),
        rights: crate::verif_ref::vany(),
    }
}

/// arbitrary auxiliary state; `wide_counters` lifts the "counters below their type maximum" bound
pub fn any_aux(turn_white: bool) -> Aux {
    let ep_prefix: u64 = crate::verif_ref::vany();
    kani::assume(rf::at_most_one(ep_prefix));
    let rights_prefix: u8 = crate::verif_ref::vany();
    kani::assume(rights_prefix < 16);
    Aux {
        ep_prefix,
        rights_prefix,
        half: crate::verif_ref::vany(),
        full: crate::verif_ref::vany(),
        hash: crate::verif_ref::vany(),
        max_seen: crate::verif_ref::vany(),
        turn_white,
    }
}

/// Assumption level `Disjoint`
pub fn any_disjoint() -> Raw {
    let x = any_raw();
    kani::assume(rf::disjoint(&x));
    kani::assume(rf::at_most_one(x.ep));
    kani::assume(x.rights < 16);
    x
}

/// Assumption level `RepInv` with `white` to move
pub fn any_repinv(white_to_move: bool) -> Raw {
    let x = any_raw();
    kani::assume(rf::rep_inv(&x, white_to_move));
    x
}

/// symbolic reference move of a concrete kind
pub fn any_rmove(kind: u8) -> RMove {
    let from: u8 = crate::verif_ref::vany();
    let to: u8 = crate::verif_ref::vany();
    kani::assume(from < 64 && to < 64);
    let promo: u8 = crate::verif_ref::vany();
    kani::assume(promo >= 1 && promo <= 4);
    RMove { kind, from, to, promo: promo as usize }
}

/// the engine move object for a reference move in position x
pub fn engine_move(x: &Raw, white: bool, m: &RMove) -> ChessMove {
    let from = Bitboard(rf::bit(m.from));
    let to = Bitboard(rf::bit(m.to));
    let ck = rf::captured_kind(x, white, m);
    let cap = if ck < 6 { Some(Capture(piece_of(ck))) } else { None };
    match m.kind {
        0 => ChessMove::Standard(StandardChessMove::new(from, to, cap)),
        1 => ChessMove::PawnPromotion(PawnPromotionChessMove::new(from, to, cap, piece_of(m.promo))),
        2 => ChessMove::EnPassant(EnPassantChessMove::new(from, to)),
        3 => ChessMove::Castle(CastleChessMove::castle_kingside(color(white))),
        _ => ChessMove::Castle(CastleChessMove::castle_queenside(color(white))),
    }
}

pub fn raw_eq(a: &Raw, b: &Raw) -> bool {
    let mut same = a.ep == b.ep && a.rights == b.rights;
    let mut i = 0;
    while i < 6 {
        same &= a.w[i] == b.w[i] && a.b[i] == b.b[i];
        i += 1;
    }
    same
}

// -------------------------------------------------------------------------------------------------
// S: one step of the board state machine.  mode selects which property's clauses are asserted.

pub const M_C03: u8 = 3; // successor position
pub const M_C04: u8 = 4; // undo restores everything
pub const M_C12: u8 = 12; // representation invariant preserved
pub const M_C16: u8 = 16; // counters

fn step(white: bool, kind: u8, mode: u8) {
    let x = any_repinv(white);
    let a = any_aux(crate::verif_ref::vany());
    if mode == M_C16 {
        // move counter: anything up to 100 000 plies (the longest legal game is < 18 000 plies);
        // half-move clock: a legal game is over long before 200 reversible plies in a row
        kani::assume(a.half[1] <= 200 && a.full <= 100_000);
    } else {
        kani::assume(a.half[1] < 255 && a.full < 255);
    }
    let m = any_rmove(kind);
    kani::assume(rf::legalish(&x, white, &m));
    let mut board = Board::verif_from_raw(&x, &a);
    let em = engine_move(&x, white, &m);
    let turn0 = board.turn();
    let full0 = board.fullmove_clock() as u64;

    let res = em.apply(&mut board);
    assert!(res.is_ok(), "apply of a rules-shaped move must not fail");
    let y = board.verif_raw();
    let want = rf::successor(&x, white, &m);
    crate::vcover!(true, "post-state reached");

    if mode == M_C03 {
        let mut i = 0;
        while i < 6 {
            assert!(y.w[i] == want.w[i], "white placement is the rules' successor");
            assert!(y.b[i] == want.b[i], "black placement is the rules' successor");
            i += 1;
        }
        assert!(y.ep == want.ep, "en-passant target is the skipped square or empty");
        assert!(y.rights == want.rights, "castling rights lost exactly as the rules say");
        assert!(board.turn() == turn0, "apply never flips the turn");
        // observable through the public accessor too
        let s: u8 = crate::verif_ref::vany();
        kani::assume(s < 64);
        let g = board.get(Bitboard(rf::bit(s)));
        let wk = rf::kind_at(&want.w, rf::bit(s));
        let bk = rf::kind_at(&want.b, rf::bit(s));
        match g {
            None => assert!(wk == 6 && bk == 6, "get() empty iff square empty in successor"),
            Some((p, Color::White)) => assert!(wk == p as usize, "get() agrees with successor (white)"),
            Some((p, Color::Black)) => assert!(bk == p as usize && wk == 6, "get() agrees with successor (black)"),
        }
    }

    if mode == M_C12 {
        assert!(rf::disjoint(&y), "at most one piece per square");
        let (sw, sb) = board.verif_summaries();
        assert!(sw == y.occ_w() && sb == y.occ_b(), "occupancy summaries agree with the bitboards");
        assert!(board.occupied().0 == y.occ(), "whole-board occupancy agrees");
        assert!(rf::one_hot(y.w[rf::K]) && rf::one_hot(y.b[rf::K]), "exactly one king per side");
        assert!((y.w[rf::P] | y.b[rf::P]) & (rf::RANK_1 | rf::RANK_8) == 0, "no pawn on rank 1/8");
        assert!(y.rights < 16);
        assert!(rf::rights_home(&y), "held right implies king and rook at home");
        assert!(y.rights & !x.rights == 0, "rights only ever shrink");
        assert!(rf::ep_consistent(&y, white), "ep target consistent with the double step just made");
        assert!(y.occ_w().count_ones() <= 16 && y.occ_b().count_ones() <= 16);
        // square-by-square contents agree with summaries
        let s: u8 = crate::verif_ref::vany();
        kani::assume(s < 64);
        let sq = Bitboard(rf::bit(s));
        assert!(board.is_occupied(sq) == board.get(sq).is_some(), "is_occupied agrees with get");
        assert!(board.get(sq).is_some() == (y.occ() & rf::bit(s) != 0));
        // ... and the state reached by undoing the move satisfies the invariant again (generation, annotation
        // and search walk back through it)
        em.undo(&mut board).unwrap();
        let z = board.verif_raw();
        assert!(rf::rep_inv(&z, white), "the state reached by undo satisfies the representation invariant");
        let (zw, zb) = board.verif_summaries();
        assert!(zw == z.occ_w() && zb == z.occ_b(), "occupancy summaries agree after undo");
        assert!(board.get(sq).is_some() == (z.occ() & rf::bit(s) != 0), "per-square contents agree after undo");
    }

    if mode == M_C16 {
        let mi = board.verif_move_info();
        assert!(mi.verif_depths().2 == 3);
        let h = board.halfmove_clock();
        if rf::resets_clock(&x, white, &m) {
            assert!(h == 0, "capture or pawn move resets the half-move clock");
        } else {
            assert!(h == a.half[1] + 1, "other moves advance the half-move clock by one");
        }
        assert!(board.fullmove_clock() as u64 == full0 + 1, "move counter advances by exactly one");
        em.undo(&mut board).unwrap();
        assert!(board.halfmove_clock() == a.half[1], "undo pops the half-move clock");
        assert!(board.fullmove_clock() as u64 == full0, "undo retreats the move counter by one");
    }

    if mode == M_C04 {
        // nesting: depth grew by exactly one on each stack, older entries untouched
        {
            let mi = board.verif_move_info();
            assert!(mi.verif_depths() == (3, 3, 3), "each stack grows by exactly one per move");
            assert!(mi.verif_ep_at(0) == a.ep_prefix && mi.verif_ep_at(1) == x.ep);
            assert!(mi.verif_rights_at(0) == a.rights_prefix && mi.verif_rights_at(1) == x.rights);
            assert!(mi.verif_half_at(0) == a.half[0] && mi.verif_half_at(1) == a.half[1]);
        }
        let r = em.undo(&mut board);
        assert!(r.is_ok(), "undo of the move just made must not fail");
        let z = board.verif_raw();
        let mut i = 0;
        while i < 6 {
            assert!(z.w[i] == x.w[i], "undo restores white placement");
            assert!(z.b[i] == x.b[i], "undo restores black placement");
            i += 1;
        }
        let (sw, sb) = board.verif_summaries();
        assert!(sw == x.occ_w() && sb == x.occ_b(), "undo restores occupancy summaries");
        assert!(z.ep == x.ep && z.rights == x.rights, "undo restores ep target and rights");
        let mi = board.verif_move_info();
        assert!(mi.verif_depths() == (2, 2, 2), "undo pops exactly one entry per stack");
        assert!(mi.verif_ep_at(0) == a.ep_prefix && mi.verif_rights_at(0) == a.rights_prefix && mi.verif_half_at(0) == a.half[0], "older stack entries untouched");
        assert!(board.halfmove_clock() == a.half[1] && board.fullmove_clock() as u64 == full0, "undo restores both counters");
        assert!(board.turn() == turn0);
        let pi = board.verif_position_info();
        assert!(pi.verif_max_seen_depth() == 2 && pi.verif_max_seen_at(0) == a.max_seen[0] && pi.verif_max_seen_at(1) == a.max_seen[1] && pi.verif_count_len() == 0, "repetition bookkeeping untouched by make/undo");
    }
    core::mem::forget(board);
}

macro_rules! step_harness {
    ($name:ident, $white:expr, $kind:expr, $mode:expr) => {
        #[kani::proof]
        #[kani::unwind(8)]
        fn $name() {
            step($white, $kind, $mode);
        }
    };
}

// kinds: 0 standard (quiet, capture, double step), 1 promotion (4 pieces, +-capture), 2 en passant, 3 O-O, 4 O-O-O
step_harness!(c03_apply_std_w, true, 0, M_C03);
step_harness!(c03_apply_std_b, false, 0, M_C03);
step_harness!(c03_apply_promo_w, true, 1, M_C03);
step_harness!(c03_apply_promo_b, false, 1, M_C03);
step_harness!(c03_apply_ep_w, true, 2, M_C03);
step_harness!(c03_apply_ep_b, false, 2, M_C03);
step_harness!(c03_apply_oo_w, true, 3, M_C03);
step_harness!(c03_apply_oo_b, false, 3, M_C03);
step_harness!(c03_apply_ooo_w, true, 4, M_C03);
step_harness!(c03_apply_ooo_b, false, 4, M_C03);

step_harness!(c04_undo_std_w, true, 0, M_C04);
step_harness!(c04_undo_std_b, false, 0, M_C04);
step_harness!(c04_undo_promo_w, true, 1, M_C04);
step_harness!(c04_undo_promo_b, false, 1, M_C04);
step_harness!(c04_undo_ep_w, true, 2, M_C04);
step_harness!(c04_undo_ep_b, false, 2, M_C04);
step_harness!(c04_undo_oo_w, true, 3, M_C04);
step_harness!(c04_undo_oo_b, false, 3, M_C04);
step_harness!(c04_undo_ooo_w, true, 4, M_C04);
step_harness!(c04_undo_ooo_b, false, 4, M_C04);

step_harness!(c12_inv_std_w, true, 0, M_C12);
step_harness!(c12_inv_std_b, false, 0, M_C12);
step_harness!(c12_inv_promo_w, true, 1, M_C12);
step_harness!(c12_inv_promo_b, false, 1, M_C12);
step_harness!(c12_inv_ep_w, true, 2, M_C12);
step_harness!(c12_inv_ep_b, false, 2, M_C12);
step_harness!(c12_inv_oo_w, true, 3, M_C12);
step_harness!(c12_inv_oo_b, false, 3, M_C12);
step_harness!(c12_inv_ooo_w, true, 4, M_C12);
step_harness!(c12_inv_ooo_b, false, 4, M_C12);

step_harness!(c16_step_std_w, true, 0, M_C16);
step_harness!(c16_step_std_b, false, 0, M_C16);
step_harness!(c16_step_promo_w, true, 1, M_C16);
step_harness!(c16_step_promo_b, false, 1, M_C16);
step_harness!(c16_step_ep_w, true, 2, M_C16);
step_harness!(c16_step_ep_b, false, 2, M_C16);
step_harness!(c16_step_oo_w, true, 3, M_C16);
step_harness!(c16_step_oo_b, false, 3, M_C16);
step_harness!(c16_step_ooo_w, true, 4, M_C16);
step_harness!(c16_step_ooo_b, false, 4, M_C16);

/// vacuity witness: the same set-up as `step`, ending in assert!(false) — must come back FAILED.
#[kani::proof]
#[kani::unwind(8)]
fn witness_step_std_w() {
    let x = any_repinv(true);
    let a = any_aux(crate::verif_ref::vany());
    kani::assume(a.half[1] < 255 && a.full < 255);
    let m = any_rmove(0);
    kani::assume(rf::legalish(&x, true, &m));
    let mut board = Board::verif_from_raw(&x, &a);
    let em = engine_move(&x, true, &m);
    let _ = em.apply(&mut board);
    core::mem::forget(board);
    assert!(false, "vacuity witness");
}

// -------------------------------------------------------------------------------------------------
// C12 base cases

#[kani::proof]
#[kani::unwind(70)]
fn c12_base_start_and_new() {
    let b = Board::starting_position();
    let x = b.verif_raw();
    assert!(rf::rep_inv(&x, true));
    let (sw, sb) = b.verif_summaries();
    assert!(sw == x.occ_w() && sb == x.occ_b());
    assert!(x.w[rf::P] == 0xFF00 && x.b[rf::P] == 0x00FF_0000_0000_0000);
    assert!(x.w[rf::K] == rf::E1 && x.b[rf::K] == rf::E8 && x.rights == 15 && x.ep == 0);
    assert!(b.halfmove_clock() == 0 && b.fullmove_clock() == 1);
    let n = Board::new();
    let y = n.verif_raw();
    assert!(y.occ() == 0 && y.ep == 0 && y.rights == 15 && n.current_position_hash() == 0);
    core::mem::forget(b);
    core::mem::forget(n);
}

/// put / remove on an arbitrary Disjoint board keep squares single-occupied and summaries exact
#[kani::proof]
#[kani::unwind(8)]
fn c12_put_remove_step() {
    let x = any_disjoint();
    let a = any_aux(crate::verif_ref::vany());
    let mut board = Board::verif_from_raw(&x, &a);
    let s: u8 = crate::verif_ref::vany();
    kani::assume(s < 64);
    let sq = Bitboard(rf::bit(s));
    let k: u8 = crate::verif_ref::vany();
    kani::assume(k < 6);
    let white: bool = crate::verif_ref::vany();
    if crate::verif_ref::vany() {
        let r = board.put(sq, piece_of(k as usize), color(white));
        let y = board.verif_raw();
        assert!(r.is_ok() == (x.occ() & sq.0 == 0), "put succeeds iff the square was empty");
        assert!(rf::disjoint(&y));
        if r.is_ok() {
            assert!(board.get(sq) == Some((piece_of(k as usize), color(white))));
            assert!(y.occ() == x.occ() | sq.0);
        } else {
            assert!(raw_eq(&x, &y), "failed put changes nothing");
        }
    } else {
        let before = board.get(sq);
        let r = board.remove(sq);
        let y = board.verif_raw();
        assert!(r == before);
        assert!(rf::disjoint(&y));
        assert!(y.occ() == x.occ() & !sq.0);
        assert!(board.get(sq).is_none());
    }
    let (sw, sb) = board.verif_summaries();
    let y = board.verif_raw();
    assert!(sw == y.occ_w() && sb == y.occ_b());
    core::mem::forget(board);
}

// -------------------------------------------------------------------------------------------------
// H: the position key

fn zp(k: usize, sq: u64, white: bool) -> u64 {
    ZOBRIST_PIECES_TABLE[k][sq.trailing_zeros() as usize][if white { 1 } else { 0 }]
}
fn ze(sq: u64) -> u64 {
    if sq == 0 {
        0
    } else {
        ZOBRIST_EN_PASSANT_TABLE[sq.trailing_zeros() as usize]
    }
}
fn zc(r: u8) -> u64 {
    ZOBRIST_CASTLING_RIGHTS_TABLE[r as usize]
}

/// H1: the constants are non-zero and pairwise distinct, within and across the three tables (this draw).
#[kani::proof]
#[kani::unwind(4)]
fn h1_constants_distinct() {
    let i: u16 = crate::verif_ref::vany();
    let j: u16 = crate::verif_ref::vany();
    kani::assume(i < 848 && j < 848 && i != j);
    let key = |id: u16| -> u64 {
        if id < 768 {
            ZOBRIST_PIECES_TABLE[(id / 128) as usize][((id % 128) / 2) as usize][(id % 2) as usize]
        } else if id < 784 {
            ZOBRIST_CASTLING_RIGHTS_TABLE[(id - 768) as usize]
        } else {
            ZOBRIST_EN_PASSANT_TABLE[(id - 784) as usize]
        }
    };
    assert!(key(i) != 0, "every key constant is non-zero");
    assert!(key(i) != key(j), "key constants are pairwise distinct");
}

/// H2: each real toggle XORs exactly the constant of its feature; toggling twice is the identity;
/// toggling the empty en-passant target is a no-op.
#[kani::proof]
#[kani::unwind(4)]
fn h2_toggles_exact() {
    let h: u64 = crate::verif_ref::vany();
    let mut pi = PositionInfo::verif_from_raw(h, [1, 1]);
    let s: u8 = crate::verif_ref::vany();
    kani::assume(s < 64);
    let k: u8 = crate::verif_ref::vany();
    kani::assume(k < 6);
    let white: bool = crate::verif_ref::vany();
    pi.update_zobrist_hash_toggle_piece(Bitboard(rf::bit(s)), piece_of(k as usize), color(white));
    assert!(pi.current_position_hash() == h ^ ZOBRIST_PIECES_TABLE[k as usize][s as usize][white as usize]);
    pi.update_zobrist_hash_toggle_piece(Bitboard(rf::bit(s)), piece_of(k as usize), color(white));
    assert!(pi.current_position_hash() == h);
    let r: u8 = crate::verif_ref::vany();
    kani::assume(r < 16);
    pi.update_zobrist_hash_toggle_castling_rights(r);
    assert!(pi.current_position_hash() == h ^ ZOBRIST_CASTLING_RIGHTS_TABLE[r as usize]);
    pi.update_zobrist_hash_toggle_castling_rights(r);
    pi.update_zobrist_hash_toggle_en_passant_target(Bitboard(rf::bit(s)));
    assert!(pi.current_position_hash() == h ^ ZOBRIST_EN_PASSANT_TABLE[s as usize]);
    pi.update_zobrist_hash_toggle_en_passant_target(Bitboard(rf::bit(s)));
    pi.update_zobrist_hash_toggle_en_passant_target(Bitboard::EMPTY);
    assert!(pi.current_position_hash() == h);
    core::mem::forget(pi);
}

/// H2b: two different (piece, colour, square) features never toggle the same constant (this draw),
/// stated on the toggle function itself rather than on the table layout.
#[kani::proof]
#[kani::unwind(4)]
fn h2_piece_toggle_injective() {
    let s1: u8 = crate::verif_ref::vany();
    let s2: u8 = crate::verif_ref::vany();
    let k1: u8 = crate::verif_ref::vany();
    let k2: u8 = crate::verif_ref::vany();
    let c1: bool = crate::verif_ref::vany();
    let c2: bool = crate::verif_ref::vany();
    kani::assume(s1 < 64 && s2 < 64 && k1 < 6 && k2 < 6);
    let mut p1 = PositionInfo::verif_from_raw(0, [1, 1]);
    let mut p2 = PositionInfo::verif_from_raw(0, [1, 1]);
    p1.update_zobrist_hash_toggle_piece(Bitboard(rf::bit(s1)), piece_of(k1 as usize), color(c1));
    p2.update_zobrist_hash_toggle_piece(Bitboard(rf::bit(s2)), piece_of(k2 as usize), color(c2));
    let same = s1 == s2 && k1 == k2 && c1 == c2;
    assert!((p1.current_position_hash() == p2.current_position_hash()) == same);
    assert!(p1.current_position_hash() != 0);
    core::mem::forget(p1);
    core::mem::forget(p2);
}

/// H3: each board mutator changes the key by exactly the XOR of the constants of the features that
/// changed (piece on square / current ep target / current rights). Real tables of this draw.
/// which: 0 put, 1 remove, 2 push_ep, 3 pop_ep, 4 lose_rights, 5 pop_rights, 6 preserve_rights
fn h3(which: u8) {
    let x = any_disjoint();
    let a = any_aux(crate::verif_ref::vany());
    let mut board = Board::verif_from_raw(&x, &a);
    let h0 = board.current_position_hash();
    assert!(h0 == a.hash);
    match which {
        0 => {
            let s: u8 = crate::verif_ref::vany();
            kani::assume(s < 64);
            let k: u8 = crate::verif_ref::vany();
            kani::assume(k < 6);
            let white: bool = crate::verif_ref::vany();
            let r = board.put(Bitboard(rf::bit(s)), piece_of(k as usize), color(white));
            let want = if r.is_ok() { zp(k as usize, rf::bit(s), white) } else { 0 };
            assert!(board.current_position_hash() == h0 ^ want, "put toggles exactly the new piece's key");
        }
        1 => {
            let s: u8 = crate::verif_ref::vany();
            kani::assume(s < 64);
            let sq = rf::bit(s);
            let wk = rf::kind_at(&x.w, sq);
            let bk = rf::kind_at(&x.b, sq);
            let _ = board.remove(Bitboard(sq));
            let want = if wk < 6 { zp(wk, sq, true) } else if bk < 6 { zp(bk, sq, false) } else { 0 };
            assert!(board.current_position_hash() == h0 ^ want, "remove toggles exactly the removed piece's key");
        }
        2 => {
            let t: u64 = crate::verif_ref::vany();
            kani::assume(rf::at_most_one(t));
            board.push_en_passant_target(Bitboard(t));
            assert!(board.peek_en_passant_target().0 == t);
            assert!(board.current_position_hash() == h0 ^ ze(x.ep) ^ ze(t), "push: old target's key out, new target's key in");
        }
        3 => {
            let _ = board.pop_en_passant_target();
            assert!(board.peek_en_passant_target().0 == a.ep_prefix);
            assert!(board.current_position_hash() == h0 ^ ze(x.ep) ^ ze(a.ep_prefix), "pop: popped target's key out, uncovered target's key in");
        }
        4 => {
            let l: u8 = crate::verif_ref::vany();
            kani::assume(l < 16);
            let n = board.lose_castle_rights(l);
            assert!(n == x.rights & !l && board.peek_castle_rights() == n);
            assert!(board.current_position_hash() == h0 ^ zc(x.rights) ^ zc(n), "lose: old rights set's key out, new in");
        }
        5 => {
            let n = board.pop_castle_rights();
            assert!(n == a.rights_prefix && board.peek_castle_rights() == n);
            assert!(board.current_position_hash() == h0 ^ zc(x.rights) ^ zc(n), "pop: popped rights' key out, uncovered in");
        }
        _ => {
            let n = board.preserve_castle_rights();
            assert!(n == x.rights && board.peek_castle_rights() == x.rights);
            assert!(board.current_position_hash() == h0, "preserve leaves the key alone");
        }
    }
    crate::vcover!(true, "mutator returned");
    core::mem::forget(board);
}

macro_rules! h3_harness {
    ($name:ident, $which:expr) => {
        #[kani::proof]
        #[kani::unwind(8)]
        fn $name() {
            h3($which);
        }
    };
}
h3_harness!(h3_put, 0);
h3_harness!(h3_remove, 1);
h3_harness!(h3_push_ep, 2);
h3_harness!(h3_pop_ep, 3);
h3_harness!(h3_lose_rights, 4);
h3_harness!(h3_pop_rights, 5);
h3_harness!(h3_preserve_rights, 6);

/// H0: a fresh board has key 0, all rights, empty ep, empty placement: key = K(features) ^ Zc[15].
#[kani::proof]
#[kani::unwind(4)]
fn h0_new_board() {
    let b = Board::new();
    assert!(b.current_position_hash() == 0);
    assert!(b.peek_castle_rights() == 15 && b.peek_en_passant_target().0 == 0 && b.occupied().0 == 0);
    assert!(b.verif_move_info().verif_depths() == (1, 1, 1));
    core::mem::forget(b);
}

// ---- ghost-log variant: whole moves, for EVERY draw of the tables -------------------------------
// The three toggles are replaced by recorders. For an arbitrary feature id, the parity of its toggles
// over apply must equal (feature holds before) XOR (feature holds after); over apply;undo it must be
// even. XOR of independent constants: this is exactly "key = XOR of the constants of the position's
// features (+ a constant)" for every assignment of constants.

fn feature_holds(x: &Raw, id: u16) -> bool {
    if id < 768 {
        let k = (id / 128) as usize;
        let sq = rf::bit(((id % 128) / 2) as u8);
        let white = id % 2 == 1;
        if white {
            x.w[k] & sq != 0
        } else {
            x.b[k] & sq != 0
        }
    } else if id < 784 {
        x.rights == (id - 768) as u8
    } else if id < 848 {
        x.ep == rf::bit((id - 784) as u8)
    } else {
        false
    }
}

fn hmove(white: bool, kind: u8) {
    let x = any_repinv(white);
    let a = any_aux(crate::verif_ref::vany());
    kani::assume(a.half[1] < 255 && a.full < 255);
    let m = any_rmove(kind);
    kani::assume(rf::legalish(&x, white, &m));
    let mut board = Board::verif_from_raw(&x, &a);
    let em = engine_move(&x, white, &m);
    kani_ghost::reset();
    em.apply(&mut board).unwrap();
    let y = board.verif_raw();
    let id: u16 = crate::verif_ref::vany();
    assert!(!kani_ghost::overflowed(), "ghost log large enough / toggle arguments well-formed");
    assert!(
        kani_ghost::parity(id) == (feature_holds(&x, id) != feature_holds(&y, id)),
        "apply toggles exactly the features that changed"
    );
    assert!(board.current_position_hash() == a.hash, "the key is written only through the three toggles");
    crate::vcover!(kani_ghost::count() > 0, "some toggle recorded");
    em.undo(&mut board).unwrap();
    assert!(!kani_ghost::overflowed());
    assert!(!kani_ghost::parity(id), "apply;undo toggles every feature an even number of times");
    assert!(board.current_position_hash() == a.hash);
    core::mem::forget(board);
}

macro_rules! hmove_harness {
    ($name:ident, $white:expr, $kind:expr) => {
        #[kani::proof]
        #[kani::unwind(30)]
        #[kani::stub(crate::board::position_info::PositionInfo::update_zobrist_hash_toggle_piece, crate::board::position_info::PositionInfo::ghost_toggle_piece)]
        #[kani::stub(crate::board::position_info::PositionInfo::update_zobrist_hash_toggle_en_passant_target, crate::board::position_info::PositionInfo::ghost_toggle_ep)]
        #[kani::stub(crate::board::position_info::PositionInfo::update_zobrist_hash_toggle_castling_rights, crate::board::position_info::PositionInfo::ghost_toggle_castle)]
        fn $name() {
            hmove($white, $kind);
        }
    };
}
hmove_harness!(hmove_std_w, true, 0);
hmove_harness!(hmove_std_b, false, 0);
hmove_harness!(hmove_promo_w, true, 1);
hmove_harness!(hmove_promo_b, false, 1);
hmove_harness!(hmove_ep_w, true, 2);
hmove_harness!(hmove_ep_b, false, 2);
hmove_harness!(hmove_oo_w, true, 3);
hmove_harness!(hmove_oo_b, false, 3);
hmove_harness!(hmove_ooo_w, true, 4);
hmove_harness!(hmove_ooo_b, false, 4);

/// set-up API under the ghost log: put / remove / lose_castle_rights / push_en_passant_target in any
/// order keep "parity(id) == holds_before(id) XOR holds_after(id)"
#[kani::proof]
#[kani::unwind(30)]
#[kani::stub(crate::board::position_info::PositionInfo::update_zobrist_hash_toggle_piece, crate::board::position_info::PositionInfo::ghost_toggle_piece)]
#[kani::stub(crate::board::position_info::PositionInfo::update_zobrist_hash_toggle_en_passant_target, crate::board::position_info::PositionInfo::ghost_toggle_ep)]
#[kani::stub(crate::board::position_info::PositionInfo::update_zobrist_hash_toggle_castling_rights, crate::board::position_info::PositionInfo::ghost_toggle_castle)]
fn hsetup_any_mutator() {
    let x = any_disjoint();
    let a = any_aux(crate::verif_ref::vany());
    let mut board = Board::verif_from_raw(&x, &a);
    kani_ghost::reset();
    let which: u8 = crate::verif_ref::vany();
    kani::assume(which < 7);
    let s: u8 = crate::verif_ref::vany();
    kani::assume(s < 64);
    let k: u8 = crate::verif_ref::vany();
    kani::assume(k < 6);
    let white: bool = crate::verif_ref::vany();
    let t: u64 = crate::verif_ref::vany();
    kani::assume(rf::at_most_one(t));
    let l: u8 = crate::verif_ref::vany();
    kani::assume(l < 16);
    match which {
        0 => { let _ = board.put(Bitboard(rf::bit(s)), piece_of(k as usize), color(white)); }
        1 => { let _ = board.remove(Bitboard(rf::bit(s))); }
        2 => { board.push_en_passant_target(Bitboard(t)); }
        3 => { board.pop_en_passant_target(); }
        4 => { board.lose_castle_rights(l); }
        5 => { board.pop_castle_rights(); }
        _ => { board.preserve_castle_rights(); }
    }
    let y = board.verif_raw();
    let id: u16 = crate::verif_ref::vany();
    assert!(!kani_ghost::overflowed());
    assert!(kani_ghost::parity(id) == (feature_holds(&x, id) != feature_holds(&y, id)), "mutator toggles exactly the features that changed");
    assert!(board.current_position_hash() == a.hash);
    core::mem::forget(board);
}

// -------------------------------------------------------------------------------------------------
// C02.sep: neighbouring positions never share a key (real tables, this draw)

#[kani::proof]
#[kani::unwind(8)]
fn c02_sep_single_feature() {
    let x = any_disjoint();
    let a = any_aux(crate::verif_ref::vany());
    let mut board = Board::verif_from_raw(&x, &a);
    let h0 = board.current_position_hash();
    let which: u8 = crate::verif_ref::vany();
    kani::assume(which < 4);
    let s: u8 = crate::verif_ref::vany();
    kani::assume(s < 64);
    let sq = Bitboard(rf::bit(s));
    match which {
        0 => {
            // a piece appears on an empty square
            let k: u8 = crate::verif_ref::vany();
            kani::assume(k < 6);
            kani::assume(x.occ() & sq.0 == 0);
            board.put(sq, piece_of(k as usize), color(crate::verif_ref::vany())).unwrap();
        }
        1 => {
            // a piece disappears
            kani::assume(x.occ() & sq.0 != 0);
            board.remove(sq).unwrap();
        }
        2 => {
            // a different en-passant possibility (including none)
            let t: u64 = crate::verif_ref::vany();
            kani::assume(rf::at_most_one(t) && t != x.ep);
            board.push_en_passant_target(Bitboard(t));
        }
        _ => {
            // different castling rights
            let l: u8 = crate::verif_ref::vany();
            kani::assume(l < 16 && x.rights & l != 0);
            board.lose_castle_rights(l);
        }
    }
    assert!(board.current_position_hash() != h0, "positions differing in exactly one component have different keys");
    core::mem::forget(board);
}

/// a piece replaced by another piece (kind or colour) on the same square changes the key
#[kani::proof]
#[kani::unwind(8)]
fn c02_sep_replace_piece() {
    let x = any_disjoint();
    let a = any_aux(crate::verif_ref::vany());
    let mut board = Board::verif_from_raw(&x, &a);
    let h0 = board.current_position_hash();
    let s: u8 = crate::verif_ref::vany();
    kani::assume(s < 64);
    let sq = Bitboard(rf::bit(s));
    kani::assume(x.occ() & sq.0 != 0);
    let old = board.remove(sq).unwrap();
    let k: u8 = crate::verif_ref::vany();
    kani::assume(k < 6);
    let c = color(crate::verif_ref::vany());
    kani::assume((piece_of(k as usize), c) != old);
    board.put(sq, piece_of(k as usize), c).unwrap();
    assert!(board.current_position_hash() != h0);
    core::mem::forget(board);
}

// -------------------------------------------------------------------------------------------------
// vacuity witnesses (must come back FAILED on exactly the final assert)

#[kani::proof]
#[kani::unwind(8)]
fn witness_h3() {
    h3(2);
    assert!(false, "vacuity witness");
}

#[kani::proof]
#[kani::unwind(8)]
fn witness_c12_put_remove() {
    c12_put_remove_step();
    assert!(false, "vacuity witness");
}

// -------------------------------------------------------------------------------------------------
// C02.hist: histories as symbolic variables. Two boards start from the standard position; each plays a
// symbolic sequence of 3 Legalish pawn / knight moves through the real apply. Whenever the two end in the
// same placement with the same rights: keys equal <=> en-passant targets equal.

fn start_raw() -> Raw {
    Raw {
        w: [0xFF00, 0x42, 0x24, 0x81, 0x08, 0x10],
        b: [0x00FF_0000_0000_0000, 0x4200_0000_0000_0000, 0x2400_0000_0000_0000, 0x8100_0000_0000_0000, 0x0800_0000_0000_0000, 0x1000_0000_0000_0000],
        ep: 0,
        rights: 15,
    }
}

fn sym_quiet_move(board: &Board, white: bool) -> ChessMove {
    let x = board.verif_raw();
    let m = any_rmove(0);
    kani::assume(rf::legalish(&x, white, &m));
    // pawn pushes and knight jumps onto empty squares only (keeps the query within reach)
    let k = rf::kind_at(x.own(white), rf::bit(m.from));
    kani::assume((k == rf::P || k == rf::N) && x.occ() & rf::bit(m.to) == 0);
    engine_move(&x, white, &m)
}

fn c02_hist(plies: usize) {
    let s = start_raw();
    let a = Aux { ep_prefix: 0, rights_prefix: 15, half: [0, 0], full: 1, hash: 0, max_seen: [1, 1], turn_white: true };
    let mut b1 = Board::verif_from_raw(&s, &a);
    let mut b2 = Board::verif_from_raw(&s, &a);
    let mut ply = 0;
    while ply < plies {
        let white = ply % 2 == 0;
        let m1 = sym_quiet_move(&b1, white);
        m1.apply(&mut b1).unwrap();
        let m2 = sym_quiet_move(&b2, white);
        m2.apply(&mut b2).unwrap();
        ply += 1;
    }
    let r1 = b1.verif_raw();
    let r2 = b2.verif_raw();
    let mut same = r1.rights == r2.rights;
    let mut i = 0;
    while i < 6 {
        same &= r1.w[i] == r2.w[i] && r1.b[i] == r2.b[i];
        i += 1;
    }
    if same {
        crate::vcover!(r1.ep != r2.ep, "same placement reached with different en-passant possibilities");
        assert!(
            (r1.ep == r2.ep) == (b1.current_position_hash() == b2.current_position_hash()),
            "equal placement and rights: keys equal exactly when the en-passant targets are equal"
        );
    }
    core::mem::forget(b1);
    core::mem::forget(b2);
}

#[kani::proof]
#[kani::unwind(8)]
fn c02_hist_3ply() {
    c02_hist(3);
}
