//! /verif harnesses for property C13 (SAN labels) and the square-name half of C19.
//! Child module of `algebraic_notation`: sees its private helper functions.
#![allow(dead_code, unused_imports)]

use super::*;
use crate::board::kani_verif::*;
use crate::chess_move::capture::Capture;
use crate::chess_move::en_passant::EnPassantChessMove;
use crate::chess_move::pawn_promotion::PawnPromotionChessMove;
use crate::chess_move::standard::StandardChessMove;
use crate::verif_ref as rf;

/// the square names as the SAN / UCI standards spell them (lower case file letter, rank digit)
pub const NAME: [&str; 64] = [
    "a1", "b1", "c1", "d1", "e1", "f1", "g1", "h1", "a2", "b2", "c2", "d2", "e2", "f2", "g2", "h2",
    "a3", "b3", "c3", "d3", "e3", "f3", "g3", "h3", "a4", "b4", "c4", "d4", "e4", "f4", "g4", "h4",
    "a5", "b5", "c5", "d5", "e5", "f5", "g5", "h5", "a6", "b6", "c6", "d6", "e6", "f6", "g6", "h6",
    "a7", "b7", "c7", "d7", "e7", "f7", "g7", "h7", "a8", "b8", "c8", "d8", "e8", "f8", "g8", "h8",
];

/// stand-in for common::bitboard::square::to_algebraic without its 64-step shift-count loop;
/// contract (equal to the real function on every one-hot input) discharged by c19_sq_*.
pub fn name_of(square: Bitboard) -> &'static str {
    NAME[(square.0.trailing_zeros() & 63) as usize]
}

/// C19.sq: the real to_algebraic on 16 squares per harness: two bytes, file letter 'a'+i%8, rank digit
/// '1'+i/8 (lower case), and equal to the stand-in used by the SAN harnesses.
fn c19_sq(start: u8) {
    let mut i = start;
    while i < start + 16 {
        let s = to_algebraic(Bitboard(rf::bit(i)));
        let b = s.as_bytes();
        assert!(b.len() == 2, "square text is two characters");
        assert!(b[0] == b'a' + (i % 8) && b[1] == b'1' + (i / 8), "lower-case file letter then rank digit");
        let n = name_of(Bitboard(rf::bit(i))).as_bytes();
        assert!(n.len() == 2 && n[0] == b[0] && n[1] == b[1], "stand-in equals the real function");
        i += 1;
    }
}
macro_rules! sq_harness {
    ($name:ident, $start:expr) => {
        #[kani::proof]
        #[kani::unwind(66)]
        fn $name() {
            c19_sq($start);
        }
    };
}
sq_harness!(c19_sq_00, 0);
sq_harness!(c19_sq_16, 16);
sq_harness!(c19_sq_32, 32);
sq_harness!(c19_sq_48, 48);

fn std(f: u8, t: u8, cap: Option<Capture>) -> ChessMove {
    ChessMove::Standard(StandardChessMove::new(Bitboard(rf::bit(f)), Bitboard(rf::bit(t)), cap))
}

/// C13.dis: the disambiguator of a non-pawn move given N rival moves (same piece kind, same
/// destination, pairwise different origins), N concrete per harness (0..3): empty iff no rival; else the
/// file letter if no rival shares the file; else the rank digit if no rival shares the rank; else file
/// letter + rank digit. Consequently two different origins never receive the same disambiguator.
fn c13_dis_piece(n: usize) {
    let f: u8 = crate::verif_ref::vany();
    let t: u8 = crate::verif_ref::vany();
    let o: [u8; 3] = crate::verif_ref::vany();
    kani::assume(f < 64 && t < 64 && o[0] < 64 && o[1] < 64 && o[2] < 64);
    kani::assume(f != t && o[0] != t && o[1] != t && o[2] != t);
    kani::assume(o[0] != f && o[1] != f && o[2] != f && o[0] != o[1] && o[0] != o[2] && o[1] != o[2]);
    let k: u8 = crate::verif_ref::vany();
    kani::assume(k >= 1 && k <= 5);
    let cap: Option<Capture> = if crate::verif_ref::vany() { Some(Capture(Piece::Pawn)) } else { None };
    let m = std(f, t, cap);
    let mut amb = ChessMoveList::new();
    let mut i = 0;
    while i < n {
        amb.push(std(o[i], t, cap));
        i += 1;
    }
    let s = get_disambiguating_chars(piece_of(k as usize), &m, amb);
    let by = s.as_bytes();
    let mut same_file = false;
    let mut same_rank = false;
    let mut i = 0;
    while i < n {
        same_file |= o[i] % 8 == f % 8;
        same_rank |= o[i] / 8 == f / 8;
        i += 1;
    }
    let file_c = b'a' + f % 8;
    let rank_c = b'1' + f / 8;
    if n == 0 {
        assert!(by.len() == 0, "no rival: no disambiguator");
    } else if !same_file {
        assert!(by.len() == 1 && by[0] == file_c, "rivals all on other files: file letter");
    } else if !same_rank {
        assert!(by.len() == 1 && by[0] == rank_c, "a rival on the same file, none on the same rank: rank digit");
    } else {
        assert!(by.len() == 2 && by[0] == file_c && by[1] == rank_c, "rivals on the same file and on the same rank: full square");
    }
    crate::vcover!(n == 0 || (!same_file && !same_rank), "rivals differing in file and rank");
    core::mem::forget(s);
}

macro_rules! dis_harness {
    ($name:ident, $n:expr) => {
        #[kani::proof]
        #[kani::unwind(8)]
        #[kani::stub(::smallvec::SmallVec::reserve_one_unchecked, crate::move_generator::verif_no_spill)]
        #[kani::stub(::smallvec::SmallVec::spilled, crate::move_generator::verif_never_spilled)]
        #[kani::stub(::smallvec::SmallVec::try_grow, crate::move_generator::verif_no_grow)]
        #[kani::stub(common::bitboard::square::to_algebraic, crate::chess_move::algebraic_notation::kani_verif::name_of)]
        fn $name() {
            c13_dis_piece($n);
        }
    };
}
dis_harness!(c13_dis_piece_0, 0);
dis_harness!(c13_dis_piece_1, 1);
dis_harness!(c13_dis_piece_2, 2);
dis_harness!(c13_dis_piece_3, 3);

/// pawn captures are always prefixed by the origin file; pawn pushes never disambiguated.
/// kind (concrete per harness): 0 standard capture, 1 capturing promotion, 2 en passant
fn c13_dis_pawn(kind: u8) {
    let f: u8 = crate::verif_ref::vany();
    let t: u8 = crate::verif_ref::vany();
    kani::assume(f < 64 && t < 64 && f != t);
    let capk: u8 = crate::verif_ref::vany();
    kani::assume(capk < 5);
    let cap = Some(Capture(piece_of(capk as usize)));
    let from = Bitboard(rf::bit(f));
    let to = Bitboard(rf::bit(t));
    let m = match kind {
        0 => std(f, t, cap),
        1 => ChessMove::PawnPromotion(PawnPromotionChessMove::new(from, to, cap, Piece::Queen)),
        _ => ChessMove::EnPassant(EnPassantChessMove::new(from, to)),
    };
    let s = get_disambiguating_chars(Piece::Pawn, &m, ChessMoveList::new());
    let by = s.as_bytes();
    assert!(by.len() == 1 && by[0] == b'a' + f % 8, "pawn captures (incl. en passant and capturing promotions) carry the origin file");
    // a quiet pawn move can have no rival (two pawns never reach the same square by pushing)
    let q = std(f, t, None);
    let s2 = get_disambiguating_chars(Piece::Pawn, &q, ChessMoveList::new());
    assert!(s2.as_bytes().len() == 0, "quiet pawn moves carry no disambiguator");
    core::mem::forget(s);
    core::mem::forget(s2);
}

macro_rules! dis_pawn_harness {
    ($name:ident, $k:expr) => {
        #[kani::proof]
        #[kani::unwind(8)]
        #[kani::stub(::smallvec::SmallVec::reserve_one_unchecked, crate::move_generator::verif_no_spill)]
        #[kani::stub(::smallvec::SmallVec::spilled, crate::move_generator::verif_never_spilled)]
        #[kani::stub(::smallvec::SmallVec::try_grow, crate::move_generator::verif_no_grow)]
        #[kani::stub(common::bitboard::square::to_algebraic, crate::chess_move::algebraic_notation::kani_verif::name_of)]
        fn $name() {
            c13_dis_pawn($k);
        }
    };
}
dis_pawn_harness!(c13_dis_pawn_std, 0);
dis_pawn_harness!(c13_dis_pawn_promo, 1);
dis_pawn_harness!(c13_dis_pawn_ep, 2);

/// C13.sel: get_ambiguous_moves selects exactly the other candidates with the same piece kind on their
/// origin, the same destination and a different origin.
#[kani::proof]
#[kani::unwind(8)]
#[kani::stub(::smallvec::SmallVec::reserve_one_unchecked, crate::move_generator::verif_no_spill)]
#[kani::stub(::smallvec::SmallVec::spilled, crate::move_generator::verif_never_spilled)]
#[kani::stub(::smallvec::SmallVec::try_grow, crate::move_generator::verif_no_grow)]
fn c13_sel() {
    let x = any_disjoint();
    let a = any_aux(crate::verif_ref::vany());
    let mut board = Board::verif_from_raw(&x, &a);
    let f: [u8; 3] = crate::verif_ref::vany();
    let t: [u8; 3] = crate::verif_ref::vany();
    let mut i = 0;
    while i < 3 {
        kani::assume(f[i] < 64 && t[i] < 64 && f[i] != t[i]);
        kani::assume(x.occ() & rf::bit(f[i]) != 0); // every candidate moves a piece that is on the board
        i += 1;
    }
    let mut cands = ChessMoveList::new();
    let mut i = 0;
    while i < 3 {
        cands.push(std(f[i], t[i], None));
        i += 1;
    }
    let me = cands[0].clone();
    let got = get_ambiguous_moves(&me, &cands, &mut board);
    let kind_on = |s: u8| {
        let w = rf::kind_at(&x.w, rf::bit(s));
        if w < 6 { w } else { rf::kind_at(&x.b, rf::bit(s)) }
    };
    let rival = |i: usize| f[i] != f[0] && t[i] == t[0] && kind_on(f[i]) == kind_on(f[0]);
    let want = rival(1) as usize + rival(2) as usize;
    assert!(got.len() == want, "exactly the rivals are selected (never the move itself)");
    let j: usize = crate::verif_ref::vany();
    if j < got.len() {
        let g = &got[j];
        assert!((rival(1) && *g == cands[1]) || (rival(2) && *g == cands[2]));
    }
    if want == 2 {
        assert!(got[0] == cands[1] && got[1] == cands[2]);
    }
    assert!(raw_eq(&board.verif_raw(), &x), "the board is only read");
    core::mem::forget(got);
    core::mem::forget(cands);
    core::mem::forget(board);
}

/// C13.parts: the fixed-text selectors: capture mark, check / mate suffix, castle strings
#[kani::proof]
#[kani::unwind(8)]
fn c13_parts() {
    let f: u8 = crate::verif_ref::vany();
    let t: u8 = crate::verif_ref::vany();
    kani::assume(f < 64 && t < 64 && f != t);
    let capk: u8 = crate::verif_ref::vany();
    kani::assume(capk <= 5);
    let has_cap: bool = crate::verif_ref::vany();
    let cap = if has_cap { Some(Capture(piece_of(capk as usize))) } else { None };
    let mut m = std(f, t, cap);
    assert!(get_capture_char(&m).as_bytes() == if has_cap { b"x" as &[u8] } else { b"" as &[u8] }, "'x' exactly for captures");
    let ep = ChessMove::EnPassant(EnPassantChessMove::new(Bitboard(rf::bit(f)), Bitboard(rf::bit(t))));
    assert!(get_capture_char(&ep).as_bytes() == b"x", "en passant is a capture");
    let e: u8 = crate::verif_ref::vany();
    kani::assume(e < 4);
    let eff = match e {
        0 => ChessMoveEffect::None,
        1 => ChessMoveEffect::Check,
        2 => ChessMoveEffect::Checkmate,
        _ => ChessMoveEffect::NotYetCalculated,
    };
    m.set_effect(eff);
    let suffix = get_check_or_checkmate_char(&m).as_bytes();
    match e {
        1 => assert!(suffix == b"+"),
        2 => assert!(suffix == b"#"),
        _ => assert!(suffix.len() == 0),
    }
    let white: bool = crate::verif_ref::vany();
    let ks = CastleChessMove::castle_kingside(color(white));
    let qs = CastleChessMove::castle_queenside(color(white));
    let a = algebraic_castle(&ks);
    let b = algebraic_castle(&qs);
    assert!(a.as_bytes() == b"O-O" && b.as_bytes() == b"O-O-O", "castle strings");
    assert!(get_promotion_chars(&m).as_bytes().len() == 0, "no promotion suffix on non-promotions");
    core::mem::forget(a);
    core::mem::forget(b);
}

// vacuity witness
#[kani::proof]
#[kani::unwind(8)]
#[kani::stub(::smallvec::SmallVec::reserve_one_unchecked, crate::move_generator::verif_no_spill)]
#[kani::stub(::smallvec::SmallVec::spilled, crate::move_generator::verif_never_spilled)]
#[kani::stub(::smallvec::SmallVec::try_grow, crate::move_generator::verif_no_grow)]
#[kani::stub(common::bitboard::square::to_algebraic, crate::chess_move::algebraic_notation::kani_verif::name_of)]
fn witness_c13_dis_2() {
    c13_dis_piece(2);
    assert!(false, "vacuity witness");
}

/// C19.uci: to_uci of a promotion for each of the four promotion pieces (the whole domain of the suffix
/// selector), on concrete squares -- core::fmt with symbolic &str arguments is not executable in CBMC
/// (measured: >10 GB even with only the suffix symbolic), so the call is made with concrete arguments.
fn c19_uci_promo(k: usize, want: u8) {
    let m = ChessMove::PawnPromotion(PawnPromotionChessMove::new(Bitboard(rf::bit(48)), Bitboard(rf::bit(57)), Some(Capture(Piece::Knight)), piece_of(k)));
    let s = m.to_uci();
    let b = s.as_bytes();
    assert!(b.len() == 5, "promotion text is five characters");
    assert!(b[0] == b'a' && b[1] == b'7' && b[2] == b'b' && b[3] == b'8', "origin then destination, lower case");
    assert!(b[4] == want, "suffix letter names the promotion piece (q/r/b/n)");
    core::mem::forget(s);
}

#[kani::proof]
#[kani::unwind(66)]
fn c19_uci_promo_suffix() {
    c19_uci_promo(1, b'n');
    c19_uci_promo(2, b'b');
    c19_uci_promo(3, b'r');
    c19_uci_promo(4, b'q');
    // a non-promotion has no suffix
    let m = std(12, 28, None);
    let s = m.to_uci();
    assert!(s.as_bytes() == b"e2e4");
    core::mem::forget(s);
}

/// the algebraic piece letters (used for the piece prefix and the '=X' promotion suffix): all six pieces
#[kani::proof]
#[kani::unwind(8)]
fn c13_piece_letters() {
    let want: [&[u8]; 6] = [b"", b"N", b"B", b"R", b"Q", b"K"];
    let mut k = 0;
    while k < 6 {
        let p = piece_of(k);
        assert!(p.to_algebraic_str().as_bytes() == want[k], "pawn: no letter; N, B, R, Q, K for the pieces");
        k += 1;
    }
}

// -------------------------------------------------------------------------------------------------
// C13.wire: the enumerating entry point labels EVERY move of the generated list exactly once.
// generate_moves_and_lazily_update_chess_move_effects -> three marker moves, two of which share origin and
// destination (a pawn step promoting to Q / N: the case a keyed collection would merge);
// chess_move_to_algebraic_notation -> recorder returning an empty String (its contract: c13_dis_*, c13_sel,
// c13_parts, mir::san_assembly). What is asserted: one (move, label) pair per listed move, each marker exactly once.
pub mod c13w {
    use super::*;
    pub static mut LABEL_CALLS: u8 = 0;
    pub static mut LIST_OK: bool = true;
    pub static mut GEN_CALLS: u8 = 0;
    pub static mut GEN_WHITE: bool = false;
    pub fn marker(i: u8) -> ChessMove {
        match i {
            0 => ChessMove::PawnPromotion(PawnPromotionChessMove::new(Bitboard(rf::bit(50)), Bitboard(rf::bit(58)), None, Piece::Queen)),
            1 => ChessMove::Standard(StandardChessMove::new(Bitboard(rf::bit(0)), Bitboard(rf::bit(8)), None)),
            _ => ChessMove::PawnPromotion(PawnPromotionChessMove::new(Bitboard(rf::bit(50)), Bitboard(rf::bit(58)), None, Piece::Knight)),
        }
    }
    impl crate::move_generator::MoveGenerator {
        pub fn c13w_generate(&mut self, _board: &mut Board, player: Color) -> ChessMoveList {
            unsafe {
                GEN_CALLS += 1;
                GEN_WHITE = player == Color::White;
            }
            let mut l = ChessMoveList::new();
            l.push(marker(0));
            l.push(marker(1));
            l.push(marker(2));
            l
        }
    }
    pub fn label(_chess_move: &ChessMove, _board: &mut Board, candidate_moves: &ChessMoveList) -> Result<String, String> {
        unsafe {
            LABEL_CALLS += 1;
            if candidate_moves.len() != 3 {
                LIST_OK = false;
            }
        }
        Ok(String::new())
    }
}

#[kani::proof]
#[kani::unwind(8)]
#[kani::stub(::smallvec::SmallVec::reserve_one_unchecked, crate::move_generator::verif_no_spill)]
#[kani::stub(::smallvec::SmallVec::spilled, crate::move_generator::verif_never_spilled)]
#[kani::stub(::smallvec::SmallVec::try_grow, crate::move_generator::verif_no_grow)]
#[kani::stub(crate::move_generator::MoveGenerator::generate_moves_and_lazily_update_chess_move_effects, crate::move_generator::MoveGenerator::c13w_generate)]
#[kani::stub(crate::chess_move::algebraic_notation::chess_move_to_algebraic_notation, crate::chess_move::algebraic_notation::kani_verif::c13w::label)]
fn c13_wire_enumerate() {
    let x = any_disjoint();
    let a = any_aux(crate::verif_ref::vany());
    let mut board = Board::verif_from_raw(&x, &a);
    let white: bool = crate::verif_ref::vany();
    let mut mg = MoveGenerator::verif_blank();
    unsafe {
        c13w::LABEL_CALLS = 0;
        c13w::LIST_OK = true;
        c13w::GEN_CALLS = 0;
    }
    let out = enumerate_candidate_moves_with_algebraic_notation(&mut board, if white { Color::White } else { Color::Black }, &mut mg);
    unsafe {
        assert!(c13w::GEN_CALLS == 1 && c13w::GEN_WHITE == white, "the annotated move list is requested once, for the colour asked about");
        assert!(c13w::LIST_OK, "every label is computed against the whole candidate list");
    }
    assert!(out.len() == 3, "one (move, label) pair per legal move");
    let mut m = 0u8;
    while m < 3 {
        let want = c13w::marker(m);
        let mut n = 0;
        let mut i = 0;
        while i < out.len() && i < 3 {
            if out[i].0 == want {
                n += 1;
            }
            i += 1;
        }
        assert!(n == 1, "each listed move appears exactly once among the labelled moves (promotions to different pieces are different moves)");
        m += 1;
    }
    core::mem::forget(out);
    core::mem::forget(mg);
    core::mem::forget(board);
}
